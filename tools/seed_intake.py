#!/usr/bin/env python3
"""Intake of a change seeded by an independent sub-agent in /tmp/seed/<id>/ (patch.diff, demo, notes.md, wt/).
Confirms in the agent's scratch worktree: builds, ctest 9/11 as baseline, demo FAILS with the change and PASSES
without it (git apply -R / apply - never git stash, which is shared between worktrees); then stores
patch.diff + demo + notes + meta.json under /verif/seeded/<id>/, removes the scratch worktree, and runs the
property's quick check against the change in a fresh scratch worktree (tools/mutants.py --seeded).

  seed_intake.py <id> <property> --demo "<shell command, run in /tmp/seed/<id>>" --needs "<what it needs to manifest>"
"""
import argparse, json, os, shutil, subprocess, sys

VERIF = os.path.dirname(os.path.dirname(os.path.abspath(__file__)))


def sh(cmd, cwd=None, timeout=900):
    r = subprocess.run(cmd, shell=True, cwd=cwd, stdout=subprocess.PIPE, stderr=subprocess.STDOUT, timeout=timeout)
    return r.returncode, r.stdout.decode(errors="replace")


def demo_fails(cmd, d):
    rc, out = sh(cmd, cwd=d)
    tail = out.strip().splitlines()[-3:] if out.strip() else []
    failed = rc != 0 or any("FAIL" in l for l in out.splitlines()[-8:])
    return failed, rc, " | ".join(tail)[-300:]


def main():
    ap = argparse.ArgumentParser()
    ap.add_argument("id")
    ap.add_argument("prop")
    ap.add_argument("--demo", required=True)
    ap.add_argument("--needs", required=True)
    ap.add_argument("--no-check", action="store_true")
    a = ap.parse_args()
    d = "/tmp/seed/" + a.id
    wt = d + "/wt"
    patch = d + "/patch.diff"
    rc, cur = sh("git -C %s diff" % wt)
    if not cur.strip():
        print("worktree has no change applied; applying patch.diff")
        sh("git -C %s apply %s" % (wt, patch))
        rc, cur = sh("git -C %s diff" % wt)
    open(d + "/cur.diff", "w").write(cur)
    build = "cmake -G Ninja -S %s -B %s/_build >/dev/null 2>&1; cmake --build %s/_build 2>&1 | tail -1" % (wt, wt, wt)
    sh(build)
    rc, out = sh("ctest --test-dir %s/_build -j8 2>&1 | grep -E 'tests passed|Failed'" % wt)
    ctest_with = " ".join(out.split())
    ok_ctest = "82% tests passed, 2 tests failed out of 11" in out and "pathologic" in out
    f_with, rc_with, tail_with = demo_fails(a.demo, d)
    sh("git -C %s apply -R %s/cur.diff" % (wt, d))
    sh(build)
    f_without, rc_without, tail_without = demo_fails(a.demo, d)
    sh("git -C %s apply %s/cur.diff" % (wt, d))
    print("ctest with change: %s" % ctest_with)
    print("demo with change   : %s (rc=%d) %s" % ("FAIL" if f_with else "PASS", rc_with, tail_with))
    print("demo without change: %s (rc=%d) %s" % ("FAIL" if f_without else "PASS", rc_without, tail_without))
    confirmed = ok_ctest and f_with and not f_without
    print("CONFIRMED" if confirmed else "NOT CONFIRMED")
    if not confirmed:
        return 1
    dst = os.path.join(VERIF, "seeded", a.id)
    os.makedirs(dst, exist_ok=True)
    open(os.path.join(dst, "patch.diff"), "w").write(cur)
    for f in ("demo.c", "demo.sh", "demo.py", "notes.md"):
        if os.path.exists(os.path.join(d, f)):
            shutil.copy(os.path.join(d, f), dst)
    json.dump({"id": a.id, "property": a.prop, "source": "fresh sub-agent given only the property text and a scratch worktree (round 2: plus a hint which area to avoid)",
               "needs_to_manifest": a.needs,
               "confirmed_by_me": "in %s: cmake build, ctest = baseline (9/11, pathologic* fail); demo `%s` FAILS with the change (%s) and PASSES after git apply -R + rebuild" % (wt, a.demo, tail_with[:120])},
              open(os.path.join(dst, "meta.json"), "w"), indent=1)
    sh("git -C /repo worktree remove --force %s" % wt)
    for junk in ("obj", "obj-tsan", "_asan_build", "build", "demo", "demo_asan"):
        p = os.path.join(d, junk)
        if os.path.isdir(p):
            shutil.rmtree(p, ignore_errors=True)
    if a.no_check:
        return 0
    rc, out = sh("%s %s/tools/mutants.py --seeded --only %s" % (sys.executable, VERIF, a.id), cwd=VERIF, timeout=1500)
    for l in out.splitlines():
        if l.startswith("{") or l.startswith("DETECTED"):
            print(l[:700])
    return 0


if __name__ == "__main__":
    sys.exit(main())
