#!/usr/bin/env python3
"""Independent archive oracle for C09 (Python zipfile + expat; nothing from the library).
Server mode: one JSON request per line on stdin, one JSON verdict per line on stdout.
All byte strings travel as latin-1 text (see sim/json.h).

request: {fmt, archive, source, ext, directory, assets:[{url,path,opened,ok,delivered}], ref_main, ref_status}
verdict: {"ok": true} or {"ok": false, "clause": ..., "detail": ...}
"""
import io, json, re, sys, zipfile
import xml.parsers.expat

FMT_EPUB, FMT_ODT, FMT_TEXTPACK, FMT_ITMZ = 1, 6, 8, 10


def b(s):
    return s.encode("latin-1")


def html_esc(s):
    return s.replace("&", "&amp;").replace('"', "&quot;").replace("<", "&lt;").replace(">", "&gt;")


def xml_events(data):
    """(start-element events, error)"""
    ev = []
    p = xml.parsers.expat.ParserCreate()
    p.StartElementHandler = lambda name, attrs: ev.append((name, attrs))
    try:
        p.Parse(data, True)
    except xml.parsers.expat.ExpatError as e:
        return ev, str(e)
    return ev, None


def fail(clause, detail):
    return {"ok": False, "clause": clause, "detail": detail}


def check(req):
    fmt = req["fmt"]
    raw = b(req["archive"])
    assets = req.get("assets", [])
    directory = req.get("directory")
    # ---- 1. a complete ZIP archive, every member passes its CRC, names unique
    try:
        z = zipfile.ZipFile(io.BytesIO(raw))
    except Exception as e:
        return fail("not_a_zip_archive", "%s: %s" % (type(e).__name__, e))
    names = z.namelist()
    if len(set(names)) != len(names):
        dup = sorted({n for n in names if names.count(n) > 1})
        return fail("duplicate_member_names", "members appear twice: %s" % dup[:3])
    try:
        bad = z.testzip()
    except Exception as e:
        return fail("member_unreadable", "%s: %s" % (type(e).__name__, e))
    if bad is not None:
        return fail("member_fails_crc", "member %s fails its CRC / cannot be decompressed" % bad)
    # trailing garbage / truncated central directory: the end record must sit at the very end
    eocd = raw.rfind(b"PK\x05\x06")
    if eocd < 0 or eocd + 22 + int.from_bytes(raw[eocd + 20:eocd + 22], "little") != len(raw):
        return fail("archive_length_wrong", "end-of-central-directory record is not at the end of the returned data (%d bytes)" % len(raw))
    content = {n: z.read(n) for n in names}
    main = None
    prefix = ""
    # ---- 2. required members
    if fmt == FMT_EPUB:
        if not names or names[0] != "mimetype":
            return fail("mimetype_not_first", "first member is %r" % (names[0] if names else None))
        if content["mimetype"] != b"application/epub+zip":
            return fail("mimetype_wrong", repr(content["mimetype"][:60]))
        if "META-INF/container.xml" not in content:
            return fail("required_member_missing", "META-INF/container.xml")
        ev, err = xml_events(content["META-INF/container.xml"])
        if err:
            return fail("container_xml_malformed", err)
        roots = [a.get("full-path") for n, a in ev if n == "rootfile"]
        if roots != ["OEBPS/main.opf"]:
            return fail("container_names_wrong_package", repr(roots))
        if "OEBPS/main.opf" not in content:
            return fail("required_member_missing", "OEBPS/main.opf")
        ev, err = xml_events(content["OEBPS/main.opf"])
        if err:
            return fail("package_document_malformed", err)
        hrefs = [a.get("href") for n, a in ev if n == "item"]
        for need in ("nav.xhtml", "main.xhtml"):
            if need not in hrefs:
                return fail("manifest_lacks_item", need)
            if "OEBPS/" + need not in content:
                return fail("required_member_missing", "OEBPS/" + need)
        main = content["OEBPS/main.xhtml"]
        prefix = "OEBPS/assets/"
    elif fmt == FMT_ODT:
        if not names or names[0] != "mimetype":
            return fail("mimetype_not_first", "first member is %r" % (names[0] if names else None))
        if z.getinfo("mimetype").compress_type != zipfile.ZIP_STORED:
            return fail("mimetype_not_stored", "compress_type=%d" % z.getinfo("mimetype").compress_type)
        if content["mimetype"] != b"application/vnd.oasis.opendocument.text":
            return fail("mimetype_wrong", repr(content["mimetype"][:60]))
        for need in ("content.xml", "styles.xml", "meta.xml", "settings.xml", "META-INF/manifest.xml"):
            if need not in content:
                return fail("required_member_missing", need)
        ev, err = xml_events(content["META-INF/manifest.xml"])
        if err:
            return fail("manifest_malformed", err)
        listed = [a.get("manifest:full-path") for n, a in ev if n == "manifest:file-entry"]
        for need in ("content.xml", "styles.xml", "meta.xml", "settings.xml"):
            if need not in listed:
                return fail("manifest_lacks_item", need)
        # what the manifest lists must be there, and its picture entries are the package's asset table, no more and no less
        for ent in listed:
            if ent and not ent.endswith("/") and ent not in content and not ent.startswith("Pictures/"):
                return fail("manifest_lists_absent_member", ent)
        if not req.get("cli"):
            pics = sorted(x for x in listed if x and x.startswith("Pictures/") and x != "Pictures/")
            table = sorted("Pictures/" + a["path"] for a in assets)
            if pics != table:
                return fail("manifest_pictures_differ_from_asset_table", "manifest lists %r, asset table holds %r" % (pics[:4], table[:4]))
            if len(set(listed)) != len(listed):
                return fail("manifest_lists_entry_twice", repr(sorted(x for x in set(listed) if listed.count(x) > 1)[:3]))
        main = content["content.xml"]
        prefix = "Pictures/"
    elif fmt == FMT_TEXTPACK:
        for need in ("info.json", "text.markdown"):
            if need not in content:
                return fail("required_member_missing", need)
        try:
            json.loads(content["info.json"].decode("utf-8"))
        except Exception as e:
            return fail("info_json_malformed", str(e))
        main = content.get("text.html")
        prefix = "assets/"
    elif fmt == FMT_ITMZ:
        if "mapdata.xml" not in content:
            return fail("required_member_missing", "mapdata.xml")
        main = content["mapdata.xml"]
    # ---- 3. asset table
    by_path = {}
    for a in assets:
        if a["path"] in by_path and by_path[a["path"]] != a["url"]:
            return fail("asset_table_not_injective", "urls %r and %r share the path %s" % (by_path[a["path"]], a["url"], a["path"]))
        by_path[a["path"]] = a["url"]
    if fmt != FMT_ITMZ and not req.get("cli"):
        for a in assets:
            member = prefix + a["path"]
            delivered = b(a.get("delivered") or "")
            expect_member = bool(directory) and a.get("ok") and len(delivered) > 0
            if expect_member and a.get("read_failed") and member not in content:
                # the narrow fault relaxation: an asset whose read ended with an I/O error may be stored as the prefix that was
                # delivered, or left out altogether - nothing else may change
                continue
            if expect_member:
                if member not in content:
                    if a.get("never_opened"):
                        return fail("asset_member_missing", "asset %r is in the asset table and its file is readable (%d bytes), but the package builder never tried to read it and %s is not in the archive" % (a["url"], len(delivered), member))
                    return fail("asset_member_missing", "asset %r was read (%d bytes) but %s is not in the archive" % (a["url"], len(delivered), member))
                if content[member] != delivered and content[member] != b(a.get("delivered_raw") or a.get("delivered") or ""):
                    return fail("asset_member_content_differs", "asset %r: archive holds %d bytes, the file delivered %d" % (a["url"], len(content[member]), len(delivered)))
            elif member in content:
                # a file that was opened and delivered nothing (empty, or only a byte-order mark) may be left out or stored as an empty member;
                # anything else under that name is made up
                if not (bool(directory) and a.get("ok") and content[member] in (b"", b(a.get("delivered_raw") or ""))):
                    return fail("asset_member_unexpected", "asset %r could not be read but %s is in the archive (%d bytes)" % (a["url"], member, len(content[member])))
        known = {prefix + a["path"] for a in assets}
        for n in names:
            if n.startswith(prefix) and n != prefix and n not in known:
                return fail("member_not_in_asset_table", n)
    # every asset path the main document references is in the table
    if main is not None and fmt in (FMT_EPUB, FMT_TEXTPACK, FMT_ODT) and not req.get("cli"):
        refd = re.findall(rb'(?:src|href)="((?:assets|Pictures)/[0-9a-f-]{36})"', main)
        table = {a["path"] for a in assets}
        for r in refd:
            p = r.decode("latin-1").split("/", 1)[1]
            if p not in table:
                return fail("referenced_asset_not_in_table", r.decode("latin-1"))
    # ---- 4. the main document is the plain format's rendering (asset paths aside)
    if req.get("ref_status") == "finished" and main is not None:
        ref = b(req["ref_main"])
        mapped = main
        for a in assets:
            if fmt == FMT_ODT:
                mapped = mapped.replace(b("Pictures/" + a["path"]), b(a["url"]))
            else:
                mapped = mapped.replace(b("assets/" + a["path"]), b(a["url"]))      # the plain HTML writer prints an image URL as it stands (no entity escaping)
        if fmt == FMT_ODT:
            def office_text(x):
                i = x.find(b"<office:text>")
                j = x.rfind(b"</office:text>")
                return x[i:j].strip() if i >= 0 and j >= 0 else None
            got, want = office_text(mapped), office_text(ref)
            if got is None or want is None:
                return fail("main_document_differs", "office:text element not found (package: %s, flat: %s)" % (got is not None, want is not None))
        else:
            got, want = mapped.rstrip(b"\n"), ref.rstrip(b"\n")
            if fmt == FMT_EPUB and b"{{TOC" in b(req["source"]):
                # "EPUB's omitted in-document table of contents aside": the plain rendering builds a TOC (which also
                # consumes manual heading labels), the EPUB does not - the two main documents legitimately differ
                got = want = b""
        if got != want:
            at = next((i for i in range(min(len(got), len(want))) if got[i] != want[i]), min(len(got), len(want)))
            return fail("main_document_differs", "first difference at byte %d: package %r plain %r" % (at, got[max(0, at - 20):at + 40], want[max(0, at - 20):at + 40]))
        if fmt == FMT_TEXTPACK:
            md = content["text.markdown"]
            for a in assets:
                md = md.replace(b("assets/" + a["path"]), b(a["url"]))
            src = b(req["source"])
            if md != src:
                at = next((i for i in range(min(len(md), len(src))) if md[i] != src[i]), min(len(md), len(src)))
                return fail("text_markdown_differs", "first difference at byte %d: package %r source %r" % (at, md[max(0, at - 20):at + 40], src[max(0, at - 20):at + 40]))
            # ... and the other direction: TextPack's main document is text.markdown; an image or css the asset table
            # maps to assets/<path> (and text.html references under that path) must be referenced under that path there too
            raw_md = content["text.markdown"]
            for a in assets:
                if b("assets/" + a["path"]) in main and b("assets/" + a["path"]) not in raw_md:
                    return fail("text_markdown_asset_not_substituted", "asset %r -> assets/%s is referenced by text.html but text.markdown never references it" % (a["url"], a["path"]))
    return {"ok": True, "members": len(names)}


def main():
    for line in sys.stdin:
        line = line.strip()
        if not line:
            continue
        try:
            v = check(json.loads(line))
        except Exception as e:  # an oracle failure is a harness problem, never a verdict
            v = {"ok": False, "harness": "%s: %s" % (type(e).__name__, e)}
        sys.stdout.write(json.dumps(v) + "\n")
        sys.stdout.flush()


if __name__ == "__main__":
    main()
