#!/usr/bin/env python3
"""Determinism proof on a sample: for every engine, run the same run indices at several worker
counts (and twice at one of them), in separate process trees, and compare the per-run event-log
hashes and verdicts.  Any difference is a harness defect (exit 2); never a verdict about /repo.

  selfcheck_determinism.py [--runs N] [--engines dstr,pool,...] [--workers 3,7,16]
"""
import argparse, glob, json, os, shutil, subprocess, sys, time

HERE = os.path.dirname(os.path.abspath(__file__))
VERIF = os.path.dirname(HERE)
sys.path.insert(0, HERE)
import build as B  # noqa: E402

ENGINES = {"dstr": ("A", 3000), "pool": ("A", 400), "hist": ("B", 400), "meta": ("A", 2000), "incl": ("A", 1500), "pkg": ("B", 400), "thr": ("T", 200)}


def collect(outdir, variant):
    res = {}
    for f in glob.glob(os.path.join(outdir, "worker-%s-*.jsonl" % variant)):
        for line in open(f):
            r = json.loads(line)
            if "worker_done" in r:
                continue
            res[r["i"]] = (r.get("status"), r.get("log_hash"), json.dumps(r.get("violation", None), sort_keys=True)[:200], r.get("plan_hash"))
    return res


def main():
    ap = argparse.ArgumentParser()
    ap.add_argument("--runs", type=int, default=0)
    ap.add_argument("--engines", default=",".join(ENGINES))
    ap.add_argument("--workers", default="3,7,16")
    ap.add_argument("--seed", type=int, default=int(os.environ.get("VERIF_SEED", 424242)))
    a = ap.parse_args()
    wcs = [int(x) for x in a.workers.split(",")]
    bad = 0
    report = {}
    for eng in a.engines.split(","):
        variant, n = ENGINES[eng]
        n = a.runs or n
        exe = B.build(variant)["exe"]
        outs = []
        t0 = time.time()
        configs = wcs + [wcs[-1]]          # the last worker count twice
        for j, w in enumerate(configs):
            od = os.path.join(VERIF, "out", "selfcheck-%s-%d" % (eng, j))
            shutil.rmtree(od, ignore_errors=True)
            os.makedirs(od)
            env = dict(os.environ)
            env["MMDSIM_VERIF"] = VERIF
            subprocess.run([exe, "run", "--engine", eng, "--seed", str(a.seed), "--runs", str(n), "--workers", str(w), "--out", od,
                            "--tier", "quick", "--recheck-pct", "0", "--no-shrink", "--max-viol", "1000000"], stdout=subprocess.DEVNULL, env=env)
            outs.append(collect(od, variant))
            shutil.rmtree(od, ignore_errors=True)
        base = outs[0]
        mism = 0
        for o in outs[1:]:
            for i, v in base.items():
                if o.get(i) != v:
                    mism += 1
                    if mism <= 3:
                        print("MISMATCH engine=%s run=%d: %s vs %s" % (eng, i, v, o.get(i)))
        complete = all(len(o) == n for o in outs)
        report[eng] = {"runs": n, "configs": configs, "mismatches": mism, "complete": complete, "wall_s": round(time.time() - t0, 1)}
        print("engine=%s runs=%d worker_counts=%s mismatches=%d complete=%s" % (eng, n, configs, mism, complete))
        sys.stdout.flush()
        if mism or not complete:
            bad += 1
    json.dump(report, open(os.path.join(VERIF, "out", "selfcheck-determinism.json"), "w"), indent=1)
    return 2 if bad else 0


if __name__ == "__main__":
    sys.exit(main())
