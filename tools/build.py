#!/usr/bin/env python3
"""Build the simulator (mmdsim) against the library objects compiled from /repo's
current working tree.  Objects are cached by content hash, so an unchanged tree
relinks in well under a second and an edited file recompiles alone.

Variants
  A  clang -O1 ASan+UBSan, token pool on
  B  as A plus -DDISABLE_OBJECT_POOL
  T  clang -O1 -fsanitize=thread *instrumentation only*, pool off, library linked
     into libmmd_t.so without the TSan runtime; the harness supplies __tsan_*.
"""
import hashlib, os, re, subprocess, sys, shutil, time
from concurrent.futures import ThreadPoolExecutor

VERIF = os.path.dirname(os.path.dirname(os.path.abspath(__file__)))
REPO = os.environ.get("MMD6_REPO", "/repo")
BUILD = os.path.join(VERIF, "build")
OBJ = os.path.join(BUILD, "obj")
BIN = os.path.join(BUILD, "bin")
SIM = os.path.join(VERIF, "sim")

GUARD = "-DMMD6_VERIF"
COMMON = ["-O1", "-g", "-fno-omit-frame-pointer", "-w", GUARD]
SAN_AB = ["-fsanitize=address,undefined", "-fno-sanitize-recover=undefined",
          "-fno-sanitize=function"]
COV = ["-fsanitize-coverage=trace-pc-guard"]   # step counter + edge coverage (library objects only)
VARIANTS = {
    "A": {"cflags": COMMON + SAN_AB + COV, "hflags": ["-DVARIANT_A"]},
    "B": {"cflags": COMMON + SAN_AB + COV + ["-DDISABLE_OBJECT_POOL"], "hflags": ["-DVARIANT_B", "-DDISABLE_OBJECT_POOL"]},
    "T": {"cflags": COMMON + ["-fPIC", "-fsanitize=thread", "-DDISABLE_OBJECT_POOL"],
          "hflags": ["-DVARIANT_T", "-DDISABLE_OBJECT_POOL"]},
}

WRAPS_AB = ["fopen", "fopen64", "time", "clock", "localtime", "rand", "srand", "exit",
            "malloc", "calloc", "realloc", "free", "realpath", "mkdir", "chdir", "getcwd", "ran_num_next", "stat", "stat64"]

FALLBACK_SRCS = """aho-corasick beamer char critic_markup d_string epub file html itmz itmz-lexer
itmz-parser itmz-reader latex lexer memoir miniz mmd object_pool opendocument opendocument-content
opml opml-lexer opml-parser opml-reader parser rng scanners stack textbundle token token_pairs
transclude uuid xml writer zip""".split()


def sh(cmd, **kw):
    r = subprocess.run(cmd, stdout=subprocess.PIPE, stderr=subprocess.STDOUT, **kw)
    if r.returncode != 0:
        sys.stderr.write("BUILD-FAILED: %s\n%s\n" % (" ".join(cmd), r.stdout.decode(errors="replace")))
        raise SystemExit(3)
    return r.stdout


def lib_sources():
    """Library source list from CMakeLists.txt (so a change that adds a file still builds)."""
    try:
        txt = open(os.path.join(REPO, "CMakeLists.txt"), encoding="utf-8", errors="replace").read()
        m = re.search(r"set\(src_files(.*?)\)", txt, re.S)
        srcs = [s for s in m.group(1).split() if s.endswith(".c")]
        srcs = [os.path.join(REPO, s) for s in srcs]
        if len(srcs) >= 30 and all(os.path.exists(s) for s in srcs):
            return srcs
    except Exception:
        pass
    return [os.path.join(REPO, "src", s + ".c") for s in FALLBACK_SRCS]


def gen_version_h(dst_dir):
    """What cmake's configure_file does for templates/version.h.in, minus the licence text."""
    txt = open(os.path.join(REPO, "CMakeLists.txt"), encoding="utf-8", errors="replace").read()

    def var(name, default):
        m = re.search(r"set\s*\(\s*%s\s+\"?([^\")]*)\"?\s*\)" % re.escape(name), txt)
        return m.group(1) if m else default
    ver = "%s.%s.%s" % (var("My_Project_Version_Major", "6"), var("My_Project_Version_Minor", "7"),
                        var("My_Project_Version_Patch", "0"))
    body = ("#ifndef FILE_LIBMULTIMARKDOWN_H\n#define FILE_LIBMULTIMARKDOWN_H\n"
            "#define LIBMULTIMARKDOWN_NAME \"MultiMarkdown\"\n"
            "#define LIBMULTIMARKDOWN_VERSION \"%s\"\n"
            "#define LIBMULTIMARKDOWN_COPYRIGHT \"Copyright (c) %s %s.\"\n"
            "#define LIBMULTIMARKDOWN_LICENSE \"\\tThe `MultiMarkdown 6` project is released under the MIT License..\\n\"\n"
            "#endif\n") % (ver, var("My_Project_Copyright_Date", "2016 - 2023"), var("My_Project_Author", "Fletcher T. Penney"))
    os.makedirs(dst_dir, exist_ok=True)
    p = os.path.join(dst_dir, "version.h")
    if not os.path.exists(p) or open(p).read() != body:
        open(p, "w").write(body)
    return p


def file_hash(path):
    h = hashlib.sha256()
    with open(path, "rb") as f:
        h.update(f.read())
    return h.hexdigest()


def headers_hash(dirs, extra=()):
    h = hashlib.sha256()
    for d in dirs:
        for n in sorted(os.listdir(d)):
            if n.endswith((".h", ".hh", ".hpp", ".inc")):
                h.update(n.encode())
                h.update(file_hash(os.path.join(d, n)).encode())
    for e in extra:
        h.update(file_hash(e).encode())
    return h.hexdigest()


def compile_one(args):
    cc, src, flags, key = args
    out = os.path.join(OBJ, key + ".o")
    if os.path.exists(out):
        os.utime(out, None)
        return out, False
    tmp = out + ".%d.tmp" % os.getpid()
    sh([cc, "-c", src, "-o", tmp] + flags)
    os.replace(tmp, out)
    return out, True


def prune_cache(max_files=900):
    try:
        ents = [(os.path.getmtime(os.path.join(OBJ, n)), n) for n in os.listdir(OBJ)]
    except FileNotFoundError:
        return
    if len(ents) <= max_files:
        return
    ents.sort()
    for _, n in ents[: len(ents) - max_files]:
        try:
            os.remove(os.path.join(OBJ, n))
        except OSError:
            pass
    # stale binaries
    try:
        bins = [(os.path.getmtime(os.path.join(BIN, n)), n) for n in os.listdir(BIN)]
        bins.sort()
        for _, n in bins[:-24]:
            os.remove(os.path.join(BIN, n))
    except OSError:
        pass


def src_tree_hash():
    h = hashlib.sha256()
    sd = os.path.join(REPO, "src")
    for n in sorted(os.listdir(sd)):
        if n.endswith((".c", ".h")):
            h.update(n.encode())
            h.update(file_hash(os.path.join(sd, n)).encode())
    return h.hexdigest()[:16]


def build(variant, quiet=True):
    t0 = time.time()
    os.makedirs(OBJ, exist_ok=True)
    os.makedirs(BIN, exist_ok=True)
    v = VARIANTS[variant]
    gen_dir = os.path.join(BUILD, "gen")
    vh = gen_version_h(gen_dir)
    srcdir = os.path.join(REPO, "src")
    hh = headers_hash([srcdir], [vh])
    jobs = []
    inc = ["-I", gen_dir, "-I", srcdir]
    for s in lib_sources():
        flags = v["cflags"] + inc + ["-std=gnu99"]
        if os.path.basename(s) == "miniz.c" and variant in ("A", "B"):
            # third-party miniz does deliberate unaligned loads and passes NULL with size 0 to memcpy;
            # benign here, belongs to C01 (not claimed), and would end every archive-producing run
            # (shift-base: miniz shifts (year - 1980) into the DOS date field, negative when the clock is before 1980 - garbage date, valid archive)
            flags = flags + ["-fno-sanitize=alignment,nonnull-attribute,shift-base"]
        key = hashlib.sha256(("lib|%s|%s|%s|%s" % (os.path.basename(s), file_hash(s), hh, " ".join(flags))).encode()).hexdigest()[:32]
        jobs.append(("clang", s, flags, key))
    # the CLI, driven in-process
    for s in ("main.c", "argtable3.c"):
        p = os.path.join(srcdir, s)
        flags = v["cflags"] + inc + ["-std=gnu99", "-Dmain=mmd_cli_main"]
        key = hashlib.sha256(("cli|%s|%s|%s|%s" % (s, file_hash(p), hh, " ".join(flags))).encode()).hexdigest()[:32]
        jobs.append(("clang", p, flags, key))
    # harness
    simh = headers_hash([SIM], [])
    hsan = SAN_AB if variant in ("A", "B") else []
    hjobs = []
    for n in sorted(os.listdir(SIM)):
        if not n.endswith(".cc"):
            continue
        p = os.path.join(SIM, n)
        flags = ["-std=c++17", "-O1", "-g", "-fno-omit-frame-pointer", "-Wall", "-Wno-unused-function", "-Wno-unused-variable", GUARD] + hsan + v["hflags"] + inc + ["-I", SIM]
        key = hashlib.sha256(("sim|%s|%s|%s|%s|%s" % (n, file_hash(p), simh, hh, " ".join(flags))).encode()).hexdigest()[:32]
        hjobs.append(("clang++", p, flags, key))
    with ThreadPoolExecutor(max_workers=os.cpu_count() or 8) as ex:
        res = list(ex.map(compile_one, jobs + hjobs))
    libobjs = [r[0] for r in res[: len(jobs)]]
    simobjs = [r[0] for r in res[len(jobs):]]
    recompiled = sum(1 for r in res if r[1])
    linkkey = hashlib.sha256(("|".join(libobjs + simobjs) + variant).encode()).hexdigest()[:20]
    exe = os.path.join(BIN, "mmdsim_%s_%s" % (variant, linkkey))
    if not os.path.exists(exe):
        tmp = exe + ".%d.tmp" % os.getpid()
        if variant in ("A", "B"):
            wraps = ["-Wl,--wrap=%s" % w for w in WRAPS_AB]
            sh(["clang++", "-o", tmp] + simobjs + libobjs + SAN_AB + wraps + ["-lpthread", "-ldl"])
        else:
            so = os.path.join(BIN, "libmmd_t_%s.so" % linkkey)
            sh(["clang", "-shared", "-o", so + ".tmp"] + libobjs + ["-Wl,-z,undefs"])
            os.replace(so + ".tmp", so)
            sh(["clang++", "-rdynamic", "-o", tmp] + simobjs + [so, "-Wl,-rpath," + BIN, "-lpthread", "-ldl"])
        os.replace(tmp, exe)
    else:
        os.utime(exe, None)
    prune_cache()
    info = {"exe": exe, "variant": variant, "src_hash": src_tree_hash(), "recompiled": recompiled,
            "build_s": round(time.time() - t0, 2)}
    if not quiet:
        print(info)
    return info


if __name__ == "__main__":
    vs = sys.argv[1:] or ["A"]
    for v in vs:
        print(build(v, quiet=True))
