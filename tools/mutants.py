#!/usr/bin/env python3
"""Sensitivity self-test: apply each mutant (a string replacement in a library source file) to a
scratch git worktree of /repo OUTSIDE /repo and /verif, run the property's quick check against it
(MMD6_REPO points build.py at the scratch tree), and report whether the check raised a VIOLATION.
The scratch tree and its build output are removed afterwards.  Nothing is ever changed in /repo.

  mutants.py [--only ID[,ID]] [--prop C13] [--tier quick] [--runs N]
Also runs seeded changes kept under /verif/seeded/<id>/patch.diff with --seeded.
"""
import argparse, json, os, shutil, subprocess, sys, tempfile, time

HERE = os.path.dirname(os.path.abspath(__file__))
VERIF = os.path.dirname(HERE)


def sh(cmd, **kw):
    return subprocess.run(cmd, stdout=subprocess.PIPE, stderr=subprocess.STDOUT, **kw)


def run_one(mid, prop, apply_fn, tier, runs, extra_env=None):
    tmp = tempfile.mkdtemp(prefix="mmd6-mut-", dir=os.environ.get("TMPDIR", "/tmp"))
    wt = os.path.join(tmp, "wt")
    r = sh(["git", "-C", "/repo", "worktree", "add", "--detach", wt, "HEAD"])
    if r.returncode != 0:
        print(r.stdout.decode())
        return None
    try:
        ok = apply_fn(wt)
        if not ok:
            return {"id": mid, "property": prop, "result": "patch-does-not-apply"}
        env = dict(os.environ)
        env["MMD6_REPO"] = wt
        if extra_env:
            env.update(extra_env)
        cmd = [sys.executable, os.path.join(HERE, "run_check.py"), prop, "--tier", tier, "--no-evidence", "--tag=-mut-" + mid]
        if runs:
            cmd += ["--runs", str(runs)]
        t0 = time.time()
        r = sh(cmd, env=env, cwd=VERIF)
        out = r.stdout.decode(errors="replace")
        viol = [l for l in out.splitlines() if l.startswith("VIOLATION")]
        detail = [l.strip() for l in out.splitlines() if l.strip().startswith("variant=")]
        res = {"id": mid, "property": prop, "exit": r.returncode, "detected": r.returncode == 1 and bool(viol),
               "violations": len(viol), "first": (detail[0][:260] if detail else ""), "wall_s": round(time.time() - t0, 1)}
        if r.returncode not in (0, 1):
            res["tail"] = out[-600:]
        return res
    finally:
        sh(["git", "-C", "/repo", "worktree", "remove", "--force", wt])
        shutil.rmtree(tmp, ignore_errors=True)
        shutil.rmtree(os.path.join(VERIF, "out", "%s-%s-mut-%s" % (prop, tier, mid)), ignore_errors=True)


def main():
    ap = argparse.ArgumentParser()
    ap.add_argument("--only")
    ap.add_argument("--prop")
    ap.add_argument("--tier", default="quick")
    ap.add_argument("--runs", type=int, default=0)
    ap.add_argument("--seeded", action="store_true")
    ap.add_argument("--out", default=os.path.join(VERIF, "mutants", "results.json"))
    a = ap.parse_args()
    results = []
    only = set(a.only.split(",")) if a.only else None
    if a.seeded:
        root = os.path.join(VERIF, "seeded")
        for d in sorted(os.listdir(root)):
            meta_p = os.path.join(root, d, "meta.json")
            patch = os.path.join(root, d, "patch.diff")
            if not (os.path.exists(meta_p) and os.path.exists(patch)):
                continue
            if only and d not in only:
                continue
            meta = json.load(open(meta_p))
            prop = meta["property"]
            if a.prop and prop != a.prop:
                continue

            def ap_fn(wt, patch=patch):
                return sh(["git", "-C", wt, "apply", patch]).returncode == 0
            res = run_one(d, prop, ap_fn, a.tier, a.runs)
            print(json.dumps(res))
            sys.stdout.flush()
            results.append(res)
    else:
        muts = json.load(open(os.path.join(VERIF, "mutants", "mutants.json")))
        for m in muts:
            if only and m["id"] not in only:
                continue
            if a.prop and m["property"] != a.prop:
                continue

            def ap_fn(wt, m=m):
                p = os.path.join(wt, m["file"])
                s = open(p, encoding="utf-8", errors="surrogateescape").read()
                if s.count(m["old"]) < 1:
                    return False
                s = s.replace(m["old"], m["new"], 1)
                if "old2" in m:
                    if s.count(m["old2"]) < 1:
                        return False
                    s = s.replace(m["old2"], m["new2"], 1)
                open(p, "w", encoding="utf-8", errors="surrogateescape").write(s)
                return True
            res = run_one(m["id"], m["property"], ap_fn, a.tier, a.runs)
            if res:
                res["note"] = m.get("note", "")
            print(json.dumps(res))
            sys.stdout.flush()
            results.append(res)
    if not only:
        json.dump(results, open(a.out if not a.seeded else a.out.replace("results", "seeded-results"), "w"), indent=1)
    missed = [r["id"] for r in results if r and not r.get("detected")]
    print("DETECTED %d/%d; missed: %s" % (len(results) - len(missed), len(results), ", ".join(missed) or "-"))


if __name__ == "__main__":
    main()
