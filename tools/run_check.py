#!/usr/bin/env python3
"""Run one property's simulated check: build from /repo's working tree -> mmdsim run ->
merge worker records -> known-findings -> evidence file -> exit status.

  run_check.py C19 --tier quick|thorough        (env VERIF_SEED, VERIF_TIER honoured)
  run_check.py --replay /verif/out/violations/<file>.json

exit 0: property held on everything explored (KNOWN-FINDING lines allowed)
exit 1: a line `VIOLATION property=<id> replay=<path>` was printed
exit 2: harness problem (build failure, nondeterminism, worker crash) - never a verdict
"""
import argparse, glob, json, os, re, shutil, subprocess, sys, time

HERE = os.path.dirname(os.path.abspath(__file__))
VERIF = os.path.dirname(HERE)
sys.path.insert(0, HERE)
import build as B  # noqa: E402

NCPU = os.cpu_count() or 8

# property -> configuration
CHECKS = {
    "C19": {"engine": "dstr", "variants": ["A"], "quick": 40000, "thorough": 600000,
            "quick_s": 60, "thorough_s": 540,
            "real": ["src/d_string.c (all 14 public functions)", "glibc malloc/realloc under ASan", "glibc vsnprintf"],
            "stub": ["realloc placement policy (always-move buggify)", "starting capacity (hook H1)"],
            "sim_time": "not meaningful: no clock is read by DString"},
    "C18": {"engine": "pool", "variants": ["A"], "quick": 5000, "thorough": 60000, "quick_s": 70, "thorough_s": 560,
            "real": ["src/token.c pool functions", "src/object_pool.c", "the whole parser/writer (conversions and parses)", "glibc malloc under ASan"],
            "stub": ["slab size (hook H2)", "DString starting capacity (hook H1)", "realloc placement", "clock and libc rand() (simulated, per operation)"],
            "expect_probes": ["inspect_after_inner_drain", "slab_crossed", "reinit_after_free", "depth_ge_3", "nested_init", "cli_main_runs", "fresh_heap_garbage"],
            "sim_time": "clock values are per-operation environment only; no timers exist"},
    "C05": {"engine": "hist", "variants": ["A", "B"], "quick": 5000, "thorough": 120000, "quick_s": 80, "thorough_s": 570,
            "real": ["the whole library incl. CLI main() driven in-process", "glibc stdio over fopencookie"],
            "stub": ["time()/clock() (simulated clock, distinct per operation)", "rand()/srand() (simulated libc PRNG with srand semantics)", "file system under /sim (in-memory)",
                     "realloc placement", "DString starting capacity (H1)", "pool slab size (H2)"],
            "expect_probes": ["obfuscation_draws_before_op", "engine_reused", "parse_substring_nonzero_start", "pool_depth_gt_1", "has_metadata_on_parsed_engine", "pool_cycled", "engine_text_replaced", "engine_metadata_updated", "op_with_opml_inplace_replacement", "fresh_heap_garbage"],
            "sim_time": "each operation sees its own simulated clock value in [1980, 2107]; span reported under seam_events.time_calls"},
    "C11": {"engine": "meta", "variants": ["A", "B"], "quick": 16000, "thorough": 600000, "quick_s": 70, "thorough_s": 560,
            "real": ["metadata API of all three families (src/mmd.c)", "tokenizer/parser/writer reached through it", "DString"],
            "stub": ["DString starting capacity (H1)", "pool slab size (H2)"],
            "expect_probes": ["update_last_key", "update_first_key", "update_multiline_value", "add_to_doc_without_metadata", "has_metadata_twice_same_engine",
                              "update_after_update_same_engine", "block_ends_at_eof_no_newline", "dstring_realloc_moved"],
            "sim_time": "not meaningful: no clock is read on these paths"},
    "C13": {"engine": "incl", "variants": ["A", "B"], "quick": 12000, "thorough": 400000, "quick_s": 70, "thorough_s": 560,
            "real": ["src/transclude.c", "src/file.c (scan_file, path helpers)", "metadata detection in src/mmd.c", "DString", "glibc stdio over fopencookie"],
            "stub": ["file system under /sim (in-memory, POSIX path normalisation, PATH_MAX/NAME_MAX)", "realpath()", "realloc placement", "DString starting capacity (H1)", "stdio read chunk size"],
            "expect_probes": ["guard_hit", "depth_ge_3", "insert_caused_realloc_move", "open_fail", "read_error", "file_changed_between_opens", "directory_in_place_of_file", "cli_runs", "cli_batch_files", "cli_converting_format"],
            "sim_time": "not meaningful: no clock on these paths; liveness is counted in fopen calls, delivered bytes and executed basic blocks"},
    "C17": {"engine": "thr", "variants": ["T"], "quick": 1500, "thorough": 60000, "quick_s": 80, "thorough_s": 570,
            "real": ["the whole library compiled with -fsanitize=thread instrumentation and DISABLE_OBJECT_POOL, in libmmd_t.so", "real pthreads, real glibc malloc (per-thread arenas)"],
            "stub": ["thread scheduling (seeded cooperative scheduler: exactly one thread runs, baton passed at yield points)", "the TSan runtime (replaced by the simulator's own callbacks and happens-before detector)",
                     "rand()/srand()/time()/clock() (simulated, yield points)", "localtime() (passes through; its static buffer is recorded as shared state)"],
            "extra_args": ["--shrink-budget", "120", "--child-timeout", "60"],
            "expect_probes": ["preemptions", "yield_points", "preempt_in_html_export", "preempt_in_zip", "ops_META", "ops_CRITIC", "ops_TRANSCLUDE", "ops_IMPORT"],
            "state_measure": "distinct schedule hashes: FNV over the sequence (thread chosen, code site) at every hand-over",
            "sim_time": "not meaningful: the clock is constant during a run; schedules are counted in yield points"},
    "C09": {"engine": "pkg", "variants": ["A", "B"], "quick": 5000, "thorough": 150000, "quick_s": 80, "thorough_s": 570,
            "real": ["src/epub.c, opendocument.c, textbundle.c, itmz.c, zip.c, miniz.c, writer.c asset table", "the whole parser/writer", "glibc stdio over fopencookie"],
            "stub": ["asset directory (in-memory FS with per-path faults)", "time()/localtime clock (simulated, [1980, 2107], jumps between calls)", "rand()/srand() (simulated libc PRNG; library-side srand honoured)",
                     "DString starting capacity (H1)", "pool slab size (H2)", "stdio read chunk size"],
            "expect_probes": ["asset_missing_or_unopenable", "asset_empty_or_unreadable", "directory_null_with_images", "srand_between_uuid_draws_possible", "clock_before_2000",
                              "open_fail", "read_error", "file_changed_between_opens", "directory_in_place_of_file", "empty_file", "clock_jump_inside_op", "other_api_family_identical", "cli_packages"],
            "assumptions": ["Python zipfile/zlib and expat as the independent archive and XML readers (tools/pkgcheck.py)"],
            "sim_time": "each package is built at its own simulated instant in [1980-01-01, 2107-12-31], optionally jumping by up to +-100000 s between two time() calls of one operation"},
}

DEFAULT_SEED = {"quick": 20261001, "thorough": 20261002}


def load_known():
    p = os.path.join(VERIF, "known_findings.json")
    if not os.path.exists(p):
        return []
    return json.load(open(p)).get("findings", [])


def match_known(prop, viol, known):
    """A known finding suppresses only violations whose clause/class/detail match its signature."""
    for k in known:
        if k.get("status") != "known" or k.get("property") != prop:
            continue
        m = k.get("match", {})
        if "clause" in m and m["clause"] != viol.get("clause"):
            continue
        if "class" in m and m["class"] != viol.get("class"):
            continue
        det = viol.get("detail")
        det = det if isinstance(det, str) else json.dumps(det, sort_keys=True)
        if "detail_regex" in m and not re.search(m["detail_regex"], det):
            continue
        if "sig_regex" in m and not re.search(m["sig_regex"], json.dumps(viol, sort_keys=True)):
            continue
        return k
    return None


def merge(outdir, variants):
    agg = {"runs": 0, "finished": 0, "nontrivial_hashes": set(), "plan_hashes": set(), "status": {}, "fired": {}, "probes": {},
           "ops": 0, "steps": 0, "violations": [], "oos": [], "harness": [], "recheck": 0, "recheck_mismatch": 0, "nondet": [],
           "samples": [], "states": set(), "children": 0, "refs_run": 0, "refs_memo": 0, "env": {}, "cov": {}, "nguards": {},
           "schedules": set(), "extra": {}, "clock_min": None, "clock_max": None}
    for v in variants:
        for f in sorted(glob.glob(os.path.join(outdir, "worker-%s-*.jsonl" % v))):
            done = False
            for line in open(f, encoding="utf-8"):
                line = line.strip()
                if not line:
                    continue
                r = json.loads(line)
                if "worker_done" in r:
                    done = True
                    agg["children"] += r.get("children", 0)
                    agg["refs_run"] += r.get("refs_run", 0)
                    agg["refs_memo"] += r.get("refs_memo", 0)
                    agg["states"].update(r.get("states", []))
                    cov = bytes.fromhex(r.get("cov", ""))
                    old = agg["cov"].get(v, b"")
                    n = max(len(cov), len(old))
                    cov = cov.ljust(n, b"\0"); old = old.ljust(n, b"\0")
                    agg["cov"][v] = bytes(a | b for a, b in zip(cov, old))
                    agg["nguards"][v] = r.get("nguards", 0)
                    continue
                agg["runs"] += 1
                st = r.get("status", "?")
                agg["status"][st] = agg["status"].get(st, 0) + 1
                ph = v + ":" + r.get("plan_hash", "")
                agg["plan_hashes"].add(ph)
                if r.get("nontrivial"):
                    agg["nontrivial_hashes"].add(ph)
                for k, n in (r.get("fired") or {}).items():
                    agg["fired"][k] = agg["fired"].get(k, 0) + n
                for k, n in (r.get("probes") or {}).items():
                    agg["probes"][k] = agg["probes"].get(k, 0) + n
                for k, n in (r.get("env") or {}).items():
                    agg["env"][k] = agg["env"].get(k, 0) + n
                for k, n in (r.get("extra") or {}).items():
                    if isinstance(n, int):
                        agg["extra"][k] = agg["extra"].get(k, 0) + n
                agg["ops"] += r.get("ops_executed", 0)
                if "schedule_hash" in r:
                    agg["schedules"].add(r["schedule_hash"])
                if r.get("recheck"):
                    agg["recheck"] += 1
                if r.get("recheck_mismatch"):
                    agg["recheck_mismatch"] += 1
                if "sample" in r and len(agg["samples"]) < 3:
                    agg["samples"].append(r["sample"])
                if "harness" in r:
                    agg["harness"].append(r)
                if "out_of_scope" in r:
                    agg["oos"].append(r["out_of_scope"])
                if r.get("nondeterministic_violation"):
                    agg["nondet"].append(r)
                elif "violation" in r:
                    agg["violations"].append({"variant": v, "i": r["i"], "seed": r["seed"], "violation": r["violation"], "replay": r.get("replay"),
                                              "ops_before": r.get("ops_before"), "ops_after": r.get("ops_after"), "shrink_runs": r.get("shrink_runs")})
            if not done:
                agg["harness"].append({"worker_file_incomplete": f})
    return agg


def popcount(b):
    return sum(bin(x).count("1") for x in b)


def main():
    ap = argparse.ArgumentParser()
    ap.add_argument("prop", nargs="?")
    ap.add_argument("--tier", default=os.environ.get("VERIF_TIER", "quick"))
    ap.add_argument("--seed", type=int, default=None)
    ap.add_argument("--runs", type=int, default=None)
    ap.add_argument("--workers", type=int, default=NCPU)
    ap.add_argument("--max-seconds", type=int, default=None)
    ap.add_argument("--replay")
    ap.add_argument("--keep", action="store_true")
    ap.add_argument("--no-evidence", action="store_true")
    ap.add_argument("--tag", default="")
    a = ap.parse_args()

    if a.replay:
        rp = json.load(open(a.replay))
        info = B.build(rp["variant"])
        r = subprocess.run([info["exe"], "replay", a.replay])
        return r.returncode

    prop = a.prop
    if prop not in CHECKS:
        print("unknown property %s (claimed: %s)" % (prop, ", ".join(sorted(CHECKS))))
        return 2
    cfg = CHECKS[prop]
    tier = a.tier if a.tier in ("quick", "thorough") else "quick"
    seed = a.seed
    if seed is None:
        seed = int(os.environ.get("VERIF_SEED", DEFAULT_SEED[tier]))
    seed &= 0x7fffffffffffffff
    runs = a.runs or cfg[tier]
    max_s = a.max_seconds or cfg[tier + "_s"]
    t0 = time.time()
    print("VERIF_SEED=%d property=%s tier=%s engine=%s" % (seed, prop, tier, cfg["engine"]))
    sys.stdout.flush()

    outdir = os.path.join(VERIF, "out", "%s-%s%s" % (prop, tier, a.tag))
    shutil.rmtree(outdir, ignore_errors=True)
    os.makedirs(outdir, exist_ok=True)
    builds = {}
    for v in cfg["variants"]:
        builds[v] = B.build(v)
    build_s = time.time() - t0
    per_variant_runs = max(1, runs // len(cfg["variants"]))
    per_variant_s = max(5, int((max_s - build_s) / len(cfg["variants"])))
    rc_all = 0
    for v in cfg["variants"]:
        cmd = [builds[v]["exe"], "run", "--engine", cfg["engine"], "--seed", str(seed), "--runs", str(per_variant_runs),
               "--workers", str(a.workers), "--tier", tier, "--out", outdir, "--src-hash", builds[v]["src_hash"],
               "--max-seconds", str(per_variant_s)] + cfg.get("extra_args", [])
        env = dict(os.environ)
        env["MMDSIM_VERIF"] = VERIF
        r = subprocess.run(cmd, env=env)
        if r.returncode != 0:
            rc_all = 2
    agg = merge(outdir, cfg["variants"])
    v0 = cfg["variants"][0]
    cfg["rule_text"] = subprocess.run([builds[v0]["exe"], "rule", "--engine", cfg["engine"]], stdout=subprocess.PIPE).stdout.decode().strip()
    post = cfg.get("post")
    if post:
        post(agg, outdir, cfg)
    wall = time.time() - t0

    known = load_known()
    new_viol, known_hits = [], {}
    for v in agg["violations"]:
        k = match_known(prop, v["violation"], known)
        if k:
            known_hits.setdefault(k["id"], {"k": k, "n": 0, "example": v})["n"] += 1
        else:
            new_viol.append(v)
    for kid, h in sorted(known_hits.items()):
        print("KNOWN-FINDING: property=%s %s: %s (seen %d times this run, e.g. replay=%s)" % (prop, kid, h["k"]["what"], h["n"], h["example"].get("replay")))
    for v in new_viol:
        print("VIOLATION property=%s replay=%s" % (prop, v["replay"]))
        print("  variant=%s run=%d seed=%d clause=%s class=%s detail=%s (shrunk %s -> %s ops in %s re-runs)" % (
            v["variant"], v["i"], v["seed"], v["violation"].get("clause"), v["violation"].get("class"),
            json.dumps(v["violation"].get("detail"))[:300], v["ops_before"], v["ops_after"], v["shrink_runs"]))

    harness_bad = rc_all != 0 or agg["harness"] or agg["nondet"] or agg["recheck_mismatch"]
    if agg["recheck_mismatch"] or agg["nondet"]:
        print("HARNESS-NONDETERMINISM recheck_mismatch=%d nondeterministic_violations=%d" % (agg["recheck_mismatch"], len(agg["nondet"])))
    if agg["harness"]:
        print("HARNESS-ERROR %s" % json.dumps(agg["harness"][0])[:600])

    zero_probes = [k for k in cfg.get("expect_probes", []) if not agg["probes"].get(k) and not agg["fired"].get(k)]
    for k in zero_probes:
        if tier == "thorough":
            print("REACH-WARNING probe %s stayed at zero" % k)

    cov_total = sum(agg["nguards"].values()) or 0
    cov_hit = sum(popcount(b) for b in agg["cov"].values())
    ev = {
        "property_id": prop, "tier": tier, "seed": seed, "level": "exploration",
        "coverage": {
            "evaluations": agg["runs"],
            "distinct_nontrivial": len(agg["nontrivial_hashes"]),
            "rule": cfg.get("rule_text", ""),
            "samples": agg["samples"],
            "distinct_plans": len(agg["plan_hashes"]),
            "runs_per_hour": int(agg["runs"] / max(wall - build_s, 0.001) * 3600),
            "ops_executed": agg["ops"],
            "sim_steps_basic_blocks": agg["env"].get("steps", 0),
            "children_forked": agg["children"], "reference_children": agg["refs_run"], "reference_memo_hits": agg["refs_memo"],
            "simulated_time": cfg.get("sim_time", ""),
            "fault_fired": agg["fired"], "probes": agg["probes"], "probes_at_zero": zero_probes,
            "seam_events": {k: v for k, v in agg["env"].items() if k != "steps"},
            "distinct_states": len(agg["states"]), "distinct_states_measure": cfg.get("state_measure", "engine-defined abstract state keys, see DESIGN.md"),
            "library_edges_covered": cov_hit, "library_edges_total": cov_total,
            "determinism_recheck": {"rerun": agg["recheck"], "mismatches": agg["recheck_mismatch"]},
            "run_status": agg["status"],
            "out_of_scope_input_failures": len(agg["oos"]),
            "out_of_scope_kinds": sorted({json.dumps(o.get("out_of_scope"))[:120] for o in agg["oos"]})[:10],
            "components": {"real": cfg["real"], "stubbed": cfg["stub"]},
            "known_findings_seen": {k: h["n"] for k, h in known_hits.items()},
            "build": {v: {"src_hash": builds[v]["src_hash"], "recompiled": builds[v]["recompiled"]} for v in builds},
            "variants": cfg["variants"],
        },
        "assumptions": cfg.get("assumptions", []) + ["clang 14 sanitizer runtimes", "glibc stdio over fopencookie", "the harness's reference model"],
        "wall_s": round(wall, 2),
        "violations": len(new_viol),
    }
    if agg["schedules"]:
        ev["coverage"]["distinct_schedules"] = len(agg["schedules"])
    if agg["extra"]:
        ev["coverage"]["extra"] = agg["extra"]
    if "post_evidence" in agg:
        ev["coverage"].update(agg["post_evidence"])
    if not a.no_evidence:
        os.makedirs(os.path.join(VERIF, "evidence"), exist_ok=True)
        json.dump(ev, open(os.path.join(VERIF, "evidence", prop + ".json"), "w"), indent=1)
        # the same record per tier, so that a quick run does not wipe out what the last thorough run covered
        os.makedirs(os.path.join(VERIF, "evidence", tier), exist_ok=True)
        json.dump(ev, open(os.path.join(VERIF, "evidence", tier, prop + ".json"), "w"), indent=1)
    print("SUMMARY property=%s runs=%d nontrivial_distinct=%d violations=%d known=%d out_of_scope=%d states=%d edges=%d/%d wall=%.1fs runs/h=%d" % (
        prop, agg["runs"], len(agg["nontrivial_hashes"]), len(new_viol), len(known_hits), len(agg["oos"]), len(agg["states"]), cov_hit, cov_total, wall, ev["coverage"]["runs_per_hour"]))
    if new_viol:
        return 1
    if harness_bad:
        return 2
    return 0


if __name__ == "__main__":
    sys.exit(main())
