// Engine `incl` (C13): the transcluder plus a simulated file system.  The include graph *is*
// file-system state; termination is a liveness claim decided by step caps counted at the file
// seam; exact substitution is decided against a reference transcluder (DESIGN appendix A.1) fed
// with the per-open delivered content recorded by the file layer.
#if defined(VARIANT_A) || defined(VARIANT_B)
#include <errno.h>
#include "libapi.h"
#include "docgen.h"
#include "simfs.h"

namespace {

const char * ext_for(int fmt) {
	switch (fmt) {
		case FMT_HTML: case FMT_HTML_WITH_ASSETS: case FMT_EPUB: return ".html";
		case FMT_LATEX: case FMT_BEAMER: case FMT_MEMOIR: return ".tex";
		case FMT_FODT: case FMT_ODT: return ".fodt";
		default: return ".txt";
	}
}
std::string strip_bom(std::string s) {
	if (s.compare(0, 3, "\xef\xbb\xbf") == 0) s.erase(0, 3);
	if (s.compare(0, 2, "\xef\xff") == 0) s.erase(0, 2);
	if (s.compare(0, 2, "\xff\xfe") == 0) s.erase(0, 2);
	return s;
}
std::string as_cstr(const std::string & s) { size_t n = s.find('\0'); return n == std::string::npos ? s : s.substr(0, n); }

// ---- reference transcluder -------------------------------------------------------------
struct Ref {
	const std::vector<OpenRecord> * tape = nullptr; size_t cursor = 0;
	const Json * static_files = nullptr;   // planner mode: fault-free world, metadata extents by the generator's own convention
	uint64_t static_opens = 0, static_bytes = 0;
	std::string mismatch;               // first disagreement between the model's and the library's open sequence
	bool cyclic = false;                // the guard fired somewhere (or the tape ran out): only clause (a) applies
	std::vector<std::string> manifest;
	int fmt = FMT_HTML;
	int depth_max = 0;
	uint64_t budget = 200000;

	bool meta_extent(const std::string & text, size_t * end, std::string * base, bool * has_base) {
		if (static_files) {
			// the generator writes a metadata block iff the file starts with "Title: "; it ends with the first blank line
			*end = 0; *has_base = false;
			// (after shrinking any "key: value" first line; body lines never contain a colon)
			size_t l1 = text.find('\n'), colon = text.find(": ");
			if (text.empty() || !isalpha((unsigned char)text[0]) || colon == std::string::npos || (l1 != std::string::npos && colon > l1)) return false;
			size_t e = text.find("\n\n");
			*end = e == std::string::npos ? text.size() : e + 1;
			size_t b = text.compare(0, 17, "transclude base: ") == 0 ? 0 : text.find("\ntransclude base: ");
			if (b != std::string::npos && b < *end) { size_t v = b + (b ? 18 : 17); size_t nl = text.find('\n', v); *base = text.substr(v, nl == std::string::npos ? std::string::npos : nl - v); *has_base = true; }
			return true;
		}
		// where the metadata block ends and what `transclude base` says is C11's subject: ask the library
		std::string c = text;
		size_t e = 0;
		bool h = IN_LIB(mmd_string_has_metadata(&c[0], &e));
		*end = h ? e : 0;
		*has_base = false;
		if (h) {
			c = text;
			char * v = IN_LIB(mmd_string_metavalue_for_key(&c[0], "transclude base"));
			if (v) { *has_base = true; *base = v; free(v); }
		}
		return h;
	}
	static std::string with_sep(std::string s) { if (s.empty() || s.back() != '/') s.push_back('/'); return s; }

	bool open(const std::string & path, std::string * content) {
		if (static_files) {
			static_opens++;
			bool tl = false;
			std::string norm = simfs_normalize(path, &tl);
			if (tl) return false;
			for (auto & kv : static_files->o) if (kv.first == norm) {
				if (kv.second.getb("dir")) { *content = ""; return true; }
				const Json & v = kv.second.at("versions");
				*content = strip_bom(v.size() ? v[(size_t)0].s : std::string());
				static_bytes += content->size();
				return true;
			}
			// a directory in place of a file reads as empty
			std::string pre = norm + "/";
			for (auto & kv : static_files->o) if (kv.first.compare(0, pre.size(), pre) == 0) { *content = ""; return true; }
			return false;
		}
		if (cursor >= tape->size()) { if (mismatch.empty()) mismatch = "model opens " + path + " but the library made no further open"; return false; }
		const OpenRecord & r = (*tape)[cursor];
		bool tl = false;
		std::string norm = simfs_normalize(path, &tl);
		if (r.path != norm) { if (mismatch.empty()) mismatch = "open #" + std::to_string(cursor) + ": model opens " + norm + ", library opened " + r.path; return false; }
		cursor++;
		if (!r.ok) return false;
		*content = strip_bom(r.delivered);
		return true;
	}

	std::string T(std::string text, const std::string & search, const std::string & srcpath, std::vector<std::string> & ancestors, int depth) {
		if (depth > depth_max) depth_max = depth;
		text = as_cstr(text);
		std::string folder = with_sep(search);
		size_t slash = srcpath.rfind('/');
		std::string srcdir = slash == std::string::npos ? std::string() : srcpath.substr(0, slash + 1);
		size_t off = 0; std::string base; bool has_base = false;
		meta_extent(text, &off, &base, &has_base);
		if (has_base) folder = (!base.empty() && base[0] == '/') ? base : srcdir.empty() ? base : with_sep(srcdir) + base;      // a bare file name lives in the working directory
		size_t start = text.find("{{", off);
		while (start != std::string::npos && mismatch.empty()) {
			if (budget-- == 0) { cyclic = true; break; }
			size_t stop = text.find("}}", start);
			if (stop == std::string::npos) break;
			size_t last = start;
			if (stop - start < 1000) {
				std::string name = text.substr(start + 2, stop - start - 2);
				if (name == "TOC") { start = text.find("{{", stop); continue; }
				std::string path = (!name.empty() && name[0] == '/') ? name : with_sep(folder) + name;
				if (stop - start > 3 && fmt != FMT_MMD && name.size() >= 2 && name.compare(name.size() - 2, 2, ".*") == 0) { path.erase(path.size() - 2); path += ext_for(fmt); }
				bool tl = false;
				std::string canon = simfs_normalize(path, &tl);
				bool on_stack = false;
				for (auto & a : ancestors) if (a == canon) on_stack = true;
				if (on_stack) { cyclic = true; last += 2; }
				else {
					bool listed = false; for (auto & m : manifest) if (m == path) listed = true;
					if (!listed) manifest.push_back(path);
					std::string content;
					if (open(path, &content)) {
						ancestors.push_back(canon);
						std::string body = T(content, folder, path, ancestors, depth + 1);
						ancestors.pop_back();
						size_t moff = 0; std::string b2; bool hb = false;
						if (meta_extent(body, &moff, &b2, &hb)) body.erase(0, moff);
						body = as_cstr(body);
						text.replace(start, stop + 2 - start, body);
						last += body.size();
					} else last += 2;
				}
			} else last += 2;
			start = text.find("{{", last);
		}
		return text;
	}
};

struct InclEngine : Engine {
	const char * name() const override { return "incl"; }
	const char * property() const override { return "C13"; }
	std::string rule() const override {
		return "plan = one generated world (1..6 files in 1..3 directories under /sim/w; each file = optional metadata block, possibly with `transclude base:` absolute/relative, body lines, 0..4 markers "
		       "naming existing files, missing files, the file itself, ancestors (cycles 2..n), the same file twice, absolute paths, dir/../file spellings, name.* wildcards with per-format siblings, {{TOC}}, "
		       ">=1000-character markers, an unterminated {{) plus per-path faults (open_fail at the n-th open, read_error after k bytes, content changing between opens, a directory in place of a file) and 1..3 calls "
		       "out of TRANSCLUDE(top, search path, source path, any of 13 formats), MANIFEST(string|dstring|engine family) and CLI (multimarkdown in-process: -t mmd|html|latex|.. -o OUT TOP, or batch mode -b with two file arguments). Oracle: (a) the run ends within a cap on fopen calls/bytes/basic blocks computed from the world; "
		       "(b) acyclic worlds: byte equality with the reference transcluder replaying the recorded per-open content; (c) manifest = referenced paths once each in first-reference order. "
		       "Distinct = plan hash; non-trivial = >=2 files and (a cycle or >=1 fired fault or nesting depth >=3).";
	}

	Json plan(uint64_t seed, const std::string & tier) override {
		Rng kn = substream(seed, "knobs"), w = substream(seed, "workload"), fr = substream(seed, "faults");
		Json p = Json::object();
		p["engine"] = "incl";
		Json knobs = Json::object();
		static const int starts[] = {1, 2, 3, 7, 16, 64, 1024, 1024};
		knobs["dstring_start"] = starts[kn.below(8)];
		knobs["slab_objects"] = kn.chance(1, 3) ? 3 : 1024;
		knobs["realloc"] = 1;
		knobs["read_chunk"] = kn.chance(1, 3) ? (int64_t)kn.range(1, 9) : 0;
		knobs["malloc_fill"] = kn.chance(1, 2) ? 1 : 0;      // fresh heap memory holds garbage that depends on the allocation history (core.h)
		p["knobs"] = knobs;
		int nfiles = (int)w.range(1, 6);
		static const char * dirs[] = {"/sim/w", "/sim/w/sub", "/sim/x"};
		int ndirs = (int)w.range(1, 3);
		bool use_base = w.chance(1, 3), use_wild = w.chance(1, 3), use_faults = fr.chance(1, 2), use_odd = w.chance(1, 3);
		int fmt = w.chance(1, 2) ? FMT_HTML : w.chance(1, 3) ? (int)w.below(13) : gen_text_format(w);      // every format has its own wildcard mapping (EPUB -> .html, ODT -> .fodt, bundles -> .txt)
		bool dag = w.chance(1, 2);          // half of the worlds are acyclic by construction (file i only names files j > i), so clauses (b)/(c) get their share
		// one world in twelve combines what otherwise only meets by coincidence: cycles closed through `.*` wildcard markers in files that re-spell
		// their directory with a relative `transclude base`, in a format that maps the wildcard
		bool wildcycle = w.chance(1, 12);
		if (wildcycle) { use_base = true; use_wild = true; dag = false; if (fmt == FMT_MMD) fmt = FMT_HTML; }
		std::vector<std::string> names, paths;
		for (int i = 0; i < nfiles; i++) {
			std::string dir = dirs[w.below((uint64_t)ndirs)];
			std::string nm = std::string(1, (char)('a' + i));
			bool wild = use_wild && w.chance(wildcycle ? 2 : 1, 3);
			std::string ext = wild ? ext_for(fmt) : ".txt";
			names.push_back(nm + (wild ? ".*" : ext));
			paths.push_back(dir + "/" + nm + ext);
		}
		auto rel = [&](const std::string & from_dir, const std::string & target) -> std::string {
			// a spelling of `target` as seen from from_dir
			std::string tdir = target.substr(0, target.rfind('/')), tfile = target.substr(target.rfind('/') + 1);
			if (w.chance(1, 6)) return target;                                        // absolute
			if (tdir == from_dir) { if (w.chance(1, 6)) return "./" + tfile; if (w.chance(1, 8)) return "../" + from_dir.substr(from_dir.rfind('/') + 1) + "/" + tfile; return tfile; }
			if (tdir.compare(0, from_dir.size() + 1, from_dir + "/") == 0) return tdir.substr(from_dir.size() + 1) + "/" + tfile;
			if (from_dir.compare(0, tdir.size() + 1, tdir + "/") == 0) return "../" + tfile;
			return target;
		};
		Json files = Json::object();
		size_t maxmarkers = 1, maxfile = 16;
		for (int i = 0; i < nfiles; i++) {
			std::string dir = paths[(size_t)i].substr(0, paths[(size_t)i].rfind('/'));
			std::string search = "/sim/w";       // what a child sees as folder unless a base overrides it: the parent's folder; spell relative to the top's search dir
			std::string t;
			std::string basedir = search;
			bool prose_meta = false;
			if (w.chance(1, 3) || (use_base && w.chance(1, 2))) {
				t += "Title: file " + std::string(1, (char)('a' + i)) + "\n";
				if (use_base && w.chance(2, 3)) {
					static const char * bases[] = {".", "./", "sub", "sub/..", "../w", "/sim/w", "/sim/x", "/sim/w/sub/", "nonexistent"};
					std::string b = bases[w.below(9)];
					t += "transclude base: " + b + "\n";
					basedir = b[0] == '/' ? b : dir + "/" + b;
					bool tl; basedir = simfs_normalize(basedir, &tl);
				}
				if (w.chance(1, 3)) t += "Author: someone\n";
				t += "\n";
			} else if (w.chance(1, 5)) {
				// no metadata, but a first line that the cheap metadata-line scan accepts: a URL, a key without a value -
				// or prose with a colon, which by the syntax's own rule IS metadata (the oracle asks the library where it ends)
				static const char * look[] = {"http://example.com/manual is the reference\n", "Summary:\n", "Note: prose with a colon\n", "https://example.org/x\n"};
				t += look[w.below(4)];
				prose_meta = t.compare(0, 5, "Note:") == 0;
			}
			int nm = (int)w.range(0, 4);
			if ((size_t)nm > maxmarkers) maxmarkers = (size_t)nm;
			int lines = (int)w.range(1, 4);
			for (int l = 0; l < lines || nm > 0; l++) {
				t += "line " + std::to_string(l) + " of " + std::string(1, (char)('a' + i)) + " " + gen_plain(w) + " ";
				if (nm > 0 && w.chance(2, 3)) {
					nm--;
					unsigned k = (unsigned)w.below(20);
					std::string target = paths[w.below((uint64_t)nfiles)];
					if (k == 0) t += "{{TOC}}";
					else if (k == 1) t += "{{missing.txt}}";
					else if (k == 2 && use_odd) t += "{{" + std::string(990 + w.below(20), 'x') + "}}";
					else if (k == 3 && use_odd) t += "{{unterminated";
					else if (k == 4 && use_odd) {
						// the empty marker; names that merely START like the TOC placeholder (only the literal {{TOC}} is one); a name with blanks around it
						unsigned ok = (unsigned)w.below(5);
						if (w.chance(1, 4)) t += w.chance(1, 2) ? "{{sub}}" : "{{x.*.txt}}";      // a marker that names a directory (when /sim/w/sub exists); `.*` that is not at the end
						else t += ok == 0 ? "{{}}" : ok == 1 ? "{{TOC:2-3}}" : ok == 2 ? "{{TOC.txt}}" : ok == 3 ? "{{TOCnotes.txt}}" : "{{ " + rel(basedir, target) + " }}";
					}
					else if (k == 5 && use_odd && !dag) t += "{{ {{" + rel(basedir, target) + "}} }}";
					else if (k == 6 && !dag) t += "{{" + rel(basedir, paths[(size_t)i]) + "}}";            // self
					else {
						// spell the target relative to the folder the marker will be resolved against (the search dir or this file's base)
						size_t ti = (size_t)w.below((uint64_t)nfiles);
						if (dag) { if (i + 1 >= nfiles) { t += "{{missing" + std::to_string(nm) + ".txt}}"; t += "\n"; continue; } ti = (size_t)w.range(i + 1, nfiles - 1); }
						std::string nmspell = names[ti];
						std::string tp = paths[ti];
						std::string tdir = tp.substr(0, tp.rfind('/'));
						std::string sp = rel(basedir, tdir + "/" + nmspell);
						t += "{{" + sp + "}}";
					}
				}
				t += "\n";
				if (l > 12) break;
			}
			if (w.chance(1, 10) && !prose_meta) {      // (a whole file that is one metadata block costs far more basic blocks per byte than the step cap allows for)
				// sizes around scan_file's 4096-byte read chunk (exact multiples and their neighbours)
				static const size_t targets[] = {4095, 4096, 4097, 8192, 8191, 12288};
				size_t target = targets[w.below(6)];
				if (!t.empty() && t.back() != '\n') t.push_back('\n');
				while (t.size() + 64 <= target) t += "filler filler filler filler filler filler filler filler filler 63\n";
				if (t.size() < target) { t += std::string(target - t.size() - 1, 'y'); t.push_back('\n'); }
			}
			if (w.chance(1, 14)) t = w.chance(1, 2) ? std::string() : std::string("x");      // an empty file, a one-byte file: content shorter than any marker
			if (w.chance(1, 10)) t = "\xef\xbb\xbf" + t;
			if (w.chance(1, 8) && !t.empty()) t.pop_back();
			Json f = Json::object(), v = Json::array();
			v.push(t);
			if (use_faults && fr.chance(1, 6)) { v.push(t + "changed on second open\n"); }
			f["versions"] = v;
			Json faults = Json::array();
			if (use_faults && fr.chance(1, 5)) {
				Json fj = Json::object();
				unsigned fk = (unsigned)fr.below(3);
				if (fk == 0) { fj["kind"] = "open_fail"; fj["nth"] = (int64_t)fr.range(0, 3); static const int errs[] = {ENOENT, EACCES, EMFILE, ENAMETOOLONG}; fj["errno"] = errs[fr.below(4)]; }
				else if (fk == 1) { fj["kind"] = "read_error"; fj["nth"] = (int64_t)fr.range(0, 2); fj["k"] = (int64_t)fr.below(t.size() + 1); fj["errno"] = EIO; }
				else { fj["kind"] = "open_fail"; fj["nth"] = 2; fj["errno"] = EACCES; }
				faults.push(fj);
			}
			f["faults"] = faults;
			if (use_faults && fr.chance(1, 20)) { f = Json::object(); f["dir"] = true; }      // a directory in place of the file
			files[paths[(size_t)i]] = f;
			if (t.size() > maxfile) maxfile = t.size();
		}
		if (use_odd && w.chance(2, 3)) { Json f = Json::object(), v = Json::array(); v.push(std::string("my own contents page\n")); f["versions"] = v; f["faults"] = Json::array(); files["/sim/w/TOC.txt"] = f; }
		// siblings for wildcard resolution in other formats
		if (use_wild) for (int i = 0; i < nfiles; i++) if (names[(size_t)i].find(".*") != std::string::npos) {
			for (const char * e : {".html", ".tex", ".fodt", ".txt"}) {
				std::string sp = paths[(size_t)i].substr(0, paths[(size_t)i].rfind('.')) + e;
				if (!files.has(sp)) { Json f = Json::object(), v = Json::array(); v.push(std::string("sibling ") + e + " of " + names[(size_t)i] + "\n"); f["versions"] = v; files[sp] = f; }
			}
		}
		Json world = Json::object();
		world["files"] = files;
		p["world"] = world;
		p["ops"] = Json::array();
		Json ops = Json::array();
		int nops = (int)w.range(1, 3);
		for (int i = 0; i < nops; i++) {
			Json o = Json::object();
			std::string top = paths[dag ? w.below((uint64_t)std::min(nfiles, 2)) : w.below((uint64_t)nfiles)];
			o["top"] = top;
			unsigned k = (unsigned)w.below(11);
			if (k == 10) {
				// the command line tool on a file argument: exercises realpath/dirname and the -o path of main.c
				// -t mmd prints the transcluded text itself; the other formats check the wildcard mapping the CLI asks for
				static const int cf[] = {FMT_MMD, FMT_MMD, FMT_MMD, FMT_HTML, FMT_LATEX, FMT_BEAMER, FMT_MEMOIR, FMT_FODT, FMT_OPML};
				o["k"] = "CLI"; o["fmt"] = w.chance(1, 2) ? FMT_MMD : (use_wild ? fmt : cf[w.below(9)]);
				if (o.geti("fmt") != FMT_MMD && o.geti("fmt") != FMT_HTML && o.geti("fmt") != FMT_LATEX && o.geti("fmt") != FMT_BEAMER && o.geti("fmt") != FMT_MEMOIR && o.geti("fmt") != FMT_FODT && o.geti("fmt") != FMT_OPML) o["fmt"] = FMT_MMD;
				std::string tdir = top.substr(0, top.rfind('/'));
				o["search"] = tdir; o["src"] = top;
				// batch mode (-b): every file argument is transcluded and converted on its own, output next to the input
				if (w.chance(1, 3)) { o["batch"] = true; o["top2"] = paths[w.below((uint64_t)nfiles)]; }
				if (w.chance(1, 3)) o["rel"] = true;      // file arguments spelled relative to the working directory (/sim/w): a.txt, sub/b.txt, ../x/c.txt
			} else if (k < 6) {
				o["k"] = "TRANSCLUDE"; o["fmt"] = i == 0 ? fmt : (w.chance(1, 2) ? fmt : w.chance(1, 3) ? (int)w.below(13) : gen_text_format(w));
				o["search"] = w.chance(1, 6) ? "/sim/w/" : w.chance(1, 6) ? "." : "/sim/w";      // "." is what the command line tool passes for a bare file name (the working directory is /sim/w)
				o["src"] = top;
				o["hold_stack"] = w.chance(1, 3);       // pass a caller-owned `parsed` stack instead of NULL
			} else {
				o["k"] = "MANIFEST"; static const char * fam[] = {"s", "d", "e"}; o["family"] = fam[w.below(3)];
				o["search"] = "/sim/w"; o["src"] = top;
			}
			ops.push(o);
		}
		p["ops"] = ops;
		set_caps(p);
		return p;
	}
	// Caps (clause a) from the world itself: the reference transcluder, run statically over the fault-free world under
	// the natural identity of files (two spellings that normalise to the same path are the same file), bounds what a
	// correct transcluder may do; faults only remove work.  cap = 3x that + slack.
	static void set_caps(Json & p) {
		uint64_t opens = 0, bytes = 0;
		const Json & files = p.at("world").at("files");
		std::string saved_cwd = g_sim.cwd;
		g_sim.cwd = "/sim/w";
		// a batch run writes its outputs next to the inputs: when such an output would replace a file of the world (a.txt -> a.html
		// with -t html), later reads see the conversion result and the static bound below no longer describes the run - such an
		// operation is planned as a single-file run instead
		for (auto & op : p["ops"].a) if (op.getb("batch")) {
			static const char * bext[] = {".html", ".epub", ".tex", ".tex", ".tex", ".fodt", ".odt", ".textbundle", ".textpack", ".opml", ".itmz", ".mmdtext", ".html"};
			bool clash = false;
			for (const char * key : {"top", "top2"}) {
				std::string tp = op.gets(key); size_t dot = tp.rfind('.');
				std::string outp = (dot == std::string::npos || dot == 0 ? tp : tp.substr(0, dot)) + bext[op.geti("fmt", FMT_MMD) % 13];
				if (files.has(outp)) clash = true;
			}
			if (clash) { op.erase("batch"); op.erase("top2"); }
		}
		for (auto & op : p.at("ops").a) {
			// a batch run of the command line tool works through all its file arguments inside one operation
			uint64_t op_opens = 0, op_bytes = 0;
			std::vector<std::string> tops = {op.gets("top")};
			if (op.getb("batch") && op.gets("top2") != op.gets("top")) tops.push_back(op.gets("top2"));
			for (auto & tp : tops) {
				Ref r; r.static_files = &files; r.fmt = op.gets("k") == "MANIFEST" ? FMT_HTML : (int)op.geti("fmt", FMT_HTML); r.budget = 100000;
				std::string top;
				if (!r.open(tp, &top)) continue;
				std::vector<std::string> anc;
				std::string out = r.T(top, op.gets("k") == "CLI" ? tp.substr(0, tp.rfind('/')) : op.gets("search"), op.gets("k") == "CLI" ? tp : op.gets("src"), anc, 0);
				op_opens += r.static_opens + 1; op_bytes += r.static_bytes + out.size();      // + 1: the output file
			}
			opens = std::max<uint64_t>(opens, op_opens); bytes = std::max<uint64_t>(bytes, op_bytes);
		}
		g_sim.cwd = saved_cwd;
		Json cap = Json::object();
		cap["opens"] = 3 * opens + 20;
		cap["bytes"] = 3 * bytes + 65536;
		cap["model_opens"] = opens;
		p["cap"] = cap;
		p["step_cap"] = (int64_t)(5000000 + (3 * opens + 20) * 150000);
	}
	bool fixup(Json & plan) override { set_caps(plan); return plan.at("ops").size() > 0; }
	static std::string gen_plain(Rng & r) {
		static const char * w[] = {"alpha", "beta", "*em*", "gamma", "x<y", "AT&T", "{single}", "}}", "{ {", "caf\xc3\xa9"};
		std::string s;
		int n = (int)r.range(0, 3);
		for (int i = 0; i < n; i++) { if (i) s += ' '; s += w[r.below(10)]; }
		return s;
	}

	Json execute(const Json & plan, bool verbose) override {
		const Json & kn = plan.at("knobs");
		mmd6_verif_dstring_start = (size_t)std::max<int64_t>(1, kn.geti("dstring_start", 1024));
		mmd6_verif_pool_objects = (size_t)std::max<int64_t>(1, kn.geti("slab_objects", 1024));
		g_sim.realloc_mode = (int)kn.geti("realloc", 0);
		simfs_read_chunk = (long)kn.geti("read_chunk", 0);
		simfs_reset();
		simfs_load(plan.at("world"));
		g_sim.cwd = "/sim/w";
		PoolBracket pb;
		Json res = Json::object(), outs = Json::array(), viol;
		std::map<std::string, int64_t> probes;
		std::set<std::string> st;
		const Json & ops = plan.at("ops");
		int64_t executed = 0;
		bool any_cycle = false;
		int max_depth = 0;
		for (size_t k = 0; k < ops.size() && viol.is_null(); k++) {
			const Json & op = ops[k];
			std::string kind = op.gets("k"), top = op.gets("top"), search = op.gets("search"), src = op.gets("src");
			child_mark_op((int)k);
			for (auto & f : g_sim.files) f.second.opens = 0;     // "n-th open" faults are per operation
			g_sim.open_log.clear();
			g_sim.fopen_calls = 0; g_sim.bytes_delivered = 0;
			g_sim.fopen_cap = (uint64_t)plan.at("cap").geti("opens"); g_sim.bytes_cap = (uint64_t)plan.at("cap").geti("bytes");
			Json o = Json::object();
			o["k"] = kind;
			if (kind == "CLI") {
				// multimarkdown -t FMT -o <dir>/__out.txt <top>      or      multimarkdown -b -t FMT <top> <top2>
				// (the pool bracket of this engine is left and re-entered: the CLI runs its own)
				int cfmt = (int)op.geti("fmt", FMT_MMD);
				static const char * fnames[] = {"html", "epub", "latex", "beamer", "memoir", "fodt", "odt", "bundle", "bundlezip", "opml", "itmz", "mmd", "html"};
				static const char * bext[] = {".html", ".epub", ".tex", ".tex", ".tex", ".fodt", ".odt", ".textbundle", ".textpack", ".opml", ".itmz", ".mmdtext", ".html"};
				bool batch = op.getb("batch");
				std::vector<std::string> tops = {top};
				if (batch && op.gets("top2") != top) tops.push_back(op.gets("top2"));
				std::vector<std::string> outps;
				for (auto & tp : tops) {
					if (!batch) { outps.push_back(tp.substr(0, tp.rfind('/')) + "/__out.txt"); continue; }
					size_t dot = tp.rfind('.');
					outps.push_back((dot == std::string::npos || dot == 0 ? tp : tp.substr(0, dot)) + bext[cfmt % 13]);
				}
				auto spell = [&](const std::string & pth) -> std::string {
					if (!op.getb("rel")) return pth;
					if (pth.compare(0, 7, "/sim/w/") == 0) return pth.substr(7);
					if (pth.compare(0, 5, "/sim/") == 0) return "../" + pth.substr(5);
					return pth;
				};
				std::vector<std::string> args = {"multimarkdown", "-t", fnames[cfmt % 13]};
				if (batch) { args.push_back("-b"); for (auto & tp : tops) args.push_back(spell(tp)); }
				else { args.push_back("-o"); args.push_back(outps[0]); args.push_back(spell(top)); }
				std::vector<char *> argv; for (auto & a2 : args) argv.push_back(&a2[0]); argv.push_back(nullptr);
				int rc = IN_LIB(mmd_cli_main((int)args.size(), argv.data()));
				o["rc"] = rc;
				// split the open log into one tape per file argument: the read of the argument itself starts a tape, writes are not part of it
				std::vector<std::vector<OpenRecord>> tapes;
				std::vector<std::string> written(tops.size());
				std::vector<bool> wrote(tops.size(), false), unwritable(tops.size(), false);      // unwritable: the output path cannot be opened (e.g. it is a directory) - nothing to compare
				{
					// batch mode processes one argument after the other: read it, transclude, write its output - so a write ends a tape
					bool fresh = true;
					for (auto & r : g_sim.open_log) {
						if (r.writing) { if (!tapes.empty() && tapes.size() <= outps.size() && r.path == outps[tapes.size() - 1]) { if (r.ok) wrote[tapes.size() - 1] = true; else unwritable[tapes.size() - 1] = true; } fresh = true; continue; }
						if (fresh) { if (tapes.size() == tops.size()) break; tapes.emplace_back(); fresh = false; }
						tapes.back().push_back(r);
					}
				}
				for (size_t j = 0; j < outps.size(); j++) { auto it = g_sim.files.find(outps[j]); if (it != g_sim.files.end() && wrote[j]) written[j] = it->second.written; }
				std::string alld;
				size_t total_opens = 0;
				for (size_t j = 0; j < tapes.size() && viol.is_null(); j++) {
					std::vector<OpenRecord> & tape = tapes[j];
					total_opens += tape.size();
					if (tape.empty() || !tape[0].ok) continue;
					Ref ref; ref.tape = &tape; ref.cursor = 1; ref.fmt = cfmt;
					std::vector<std::string> anc;
					g_sim.fopen_cap = 0; g_sim.bytes_cap = 0;
					std::string toptext = strip_bom(tape[0].delivered);
					std::string tdir = tops[j].substr(0, tops[j].rfind('/'));
					// what the tool hands to the transcluder: the folder is dirname(argument); the source path is the absolute path (single file:
					// realpath) or the argument as spelled (batch mode)
					std::string arg = spell(tops[j]);
					size_t asl = arg.rfind('/');
					std::string afolder = asl == std::string::npos ? std::string(".") : asl == 0 ? std::string("/") : arg.substr(0, asl);
					std::string want = ref.T(toptext, afolder, batch ? arg : tops[j], anc, 0);
					if (ref.mismatch.empty() && ref.cursor != tape.size()) ref.mismatch = "library made " + std::to_string(tape.size() - ref.cursor) + " more open(s) than the model, first extra: " + tape[ref.cursor].path;
					if (ref.cyclic) { any_cycle = true; probes["guard_hit"]++; }
					if (ref.depth_max > max_depth) max_depth = ref.depth_max;
					probes[batch ? "cli_batch_files" : "cli_runs"]++;
					if (cfmt != FMT_MMD) probes["cli_converting_format"]++;
					if (ref.cyclic) continue;
					const std::string & got = written[j];
					if (!ref.mismatch.empty()) { viol = Json::object(); viol["clause"] = "open_sequence_differs"; viol["class"] = batch ? "CLI_BATCH" : "CLI"; viol["detail"] = "file argument " + tops[j] + ": " + ref.mismatch; viol["op"] = (int64_t)k; break; }
					std::string expect = as_cstr(want);
					if (cfmt != FMT_MMD) {
						// what the CLI does after transclusion: convert the text with its default extension set
						DString * src2 = IN_LIB(d_string_new(expect.c_str()));
						DString * r2 = IN_LIB(mmd_d_string_convert_to_data(src2, X_SMART | X_NOTES | X_CRITIC | X_TRANSCLUDE, (short)cfmt, 0, tdir.c_str()));
						expect = r2 ? std::string(r2->str, r2->currentStringLength) : std::string();
						if (r2) IN_LIB_V(d_string_free(r2, true));
						IN_LIB_V(d_string_free(src2, true));
					}
					if (unwritable[j]) continue;
					if (!wrote[j] || got != expect) {
						size_t at = 0; while (at < got.size() && at < expect.size() && got[at] == expect[at]) at++;
						viol = Json::object(); viol["clause"] = "substitution_differs"; viol["class"] = batch ? "CLI_BATCH" : "CLI"; viol["op"] = (int64_t)k;
						viol["detail"] = "file argument " + tops[j] + " (-t " + fnames[cfmt % 13] + "): " + std::string(wrote[j] ? "" : "no output file written; ") + "first difference at byte " + std::to_string(at) + ": CLI " + Json(got.substr(at, 40)).dump() + " model " + Json(expect.substr(at, 40)).dump();
					}
					alld += digest(got);
				}
				for (auto & op2 : outps) g_sim.files.erase(op2);
				o["opens"] = (int64_t)total_opens;
				o["out"] = digest(alld);
				g_log.ev("op", kind + ":" + o.gets("out"));
				st.insert(kind + (batch ? "B" : "") + "/f" + std::to_string(cfmt) + "/o" + std::to_string(std::min<size_t>(total_opens, 12)));
				if (viol.is_null() && g_sim.open_read_streams > 0) { viol = Json::object(); viol["clause"] = "file_left_open"; viol["class"] = kind; viol["op"] = (int64_t)k; viol["detail"] = std::to_string(g_sim.open_read_streams) + " file(s) opened for reading were never closed: a process that includes enough such files runs out of descriptors, after which every existing file is treated as missing"; }
				outs.push(o); executed++;
				continue;
			}
			// the caller reads the top file itself
			DString * topbuf = IN_LIB(scan_file(top.c_str()));
			if (!topbuf) { o["skipped"] = "top file cannot be opened"; outs.push(o); executed++; continue; }
			std::string toptext(topbuf->str, topbuf->currentStringLength);
			if (!g_sim.open_log.empty() && toptext != strip_bom(g_sim.open_log[0].delivered)) {
				// scan_file is the transcluder's only way to a file's content: what it returns must be what the file layer delivered
				viol = Json::object(); viol["clause"] = "file_content_not_delivered"; viol["class"] = "scan_file"; viol["op"] = (int64_t)k;
				viol["detail"] = "scan_file returned " + std::to_string(toptext.size()) + " bytes, the file layer delivered " + std::to_string(g_sim.open_log[0].delivered.size());
			}
			int fmt = (int)op.geti("fmt", FMT_HTML);
			std::string got;
			std::vector<std::string> got_manifest;
			uint64_t moved0 = g_sim.realloc_moved;
			if (kind == "TRANSCLUDE") {
				stack * parsed = op.getb("hold_stack") ? IN_LIB(stack_new(0)) : NULL;
				IN_LIB_V(mmd_transclude_source(topbuf, search.c_str(), src.c_str(), (short)fmt, parsed, NULL));
				if (parsed) { if (parsed->size != 0) { viol = Json::object(); viol["clause"] = "parse_stack_not_restored"; viol["detail"] = "caller's stack holds " + std::to_string(parsed->size) + " entries after the call"; viol["op"] = (int64_t)k; } IN_LIB_V(stack_free(parsed)); }
				got.assign(topbuf->str, topbuf->currentStringLength);
			} else {
				fmt = FMT_HTML;
				stack * m = nullptr;
				std::string fam = op.gets("family", "s");
				std::string c = as_cstr(toptext);
				if (fam == "s") m = IN_LIB(mmd_string_transclusion_manifest(c.c_str(), search.c_str(), src.c_str()));
				else if (fam == "d") m = IN_LIB(mmd_d_string_transclusion_manifest(topbuf, search.c_str(), src.c_str()));
				else { mmd_engine * e = IN_LIB(mmd_engine_create_with_dstring(topbuf, 0)); m = IN_LIB(mmd_engine_transclusion_manifest(e, search.c_str(), src.c_str())); IN_LIB_V(mmd_engine_free(e, false)); }
				if (m) { for (size_t i = 0; i < m->size; i++) { char * s = (char *)stack_peek_index(m, i); got_manifest.push_back(s ? s : "<null>"); free(s); } IN_LIB_V(stack_free(m)); }
				if (std::string(topbuf->str, topbuf->currentStringLength) != toptext) { viol = Json::object(); viol["clause"] = "manifest_modified_source"; viol["detail"] = "the caller's text changed"; viol["op"] = (int64_t)k; }
			}
			IN_LIB_V(d_string_free(topbuf, true));
			if (g_sim.realloc_moved > moved0) probes["insert_caused_realloc_move"]++;
			// ---- reference transcluder over the recorded opens (tape[0] is the caller's own read of the top file) ----
			std::vector<OpenRecord> tape = g_sim.open_log;
			uint64_t lib_opens = tape.size();
			Ref ref;
			ref.tape = &tape; ref.cursor = 1; ref.fmt = fmt;
			std::vector<std::string> anc;
			g_sim.fopen_cap = 0; g_sim.bytes_cap = 0;
			std::string want = ref.T(toptext, search, src, anc, 0);
			if (ref.mismatch.empty() && ref.cursor != tape.size()) ref.mismatch = "library made " + std::to_string(tape.size() - ref.cursor) + " more open(s) than the model, first extra: " + tape[ref.cursor].path;
			if (ref.cyclic) any_cycle = true;
			if (ref.depth_max > max_depth) max_depth = ref.depth_max;
			o["cyclic"] = ref.cyclic; o["opens"] = lib_opens; o["depth"] = ref.depth_max;
			if (ref.cyclic) { probes["guard_hit"]++; }
			if (ref.depth_max >= 3) probes["depth_ge_3"]++;
			if (viol.is_null() && !ref.cyclic) {
				// clauses (b) and (c) are stated for acyclic include graphs
				if (!ref.mismatch.empty()) { viol = Json::object(); viol["clause"] = "open_sequence_differs"; viol["class"] = kind; viol["detail"] = ref.mismatch; viol["op"] = (int64_t)k; }
				else if (kind == "TRANSCLUDE" && got != want) {
					size_t at = 0; while (at < got.size() && at < want.size() && got[at] == want[at]) at++;
					viol = Json::object(); viol["clause"] = "substitution_differs"; viol["class"] = kind; viol["op"] = (int64_t)k;
					viol["detail"] = "first difference at byte " + std::to_string(at) + ": library " + Json(got.substr(at, 40)).dump() + " model " + Json(want.substr(at, 40)).dump();
					if (verbose) { viol["got"] = got.substr(0, 1500); viol["want"] = want.substr(0, 1500); }
				} else if (kind == "MANIFEST" && got_manifest != ref.manifest) {
					std::string g, m2; for (auto & s : got_manifest) g += s + " | "; for (auto & s : ref.manifest) m2 += s + " | ";
					viol = Json::object(); viol["clause"] = "manifest_differs"; viol["class"] = kind; viol["op"] = (int64_t)k; viol["detail"] = "library [" + g + "] model [" + m2 + "]";
				}
			}
			if (viol.is_null() && g_sim.open_read_streams > 0) { viol = Json::object(); viol["clause"] = "file_left_open"; viol["class"] = kind; viol["op"] = (int64_t)k; viol["detail"] = std::to_string(g_sim.open_read_streams) + " file(s) opened for reading were never closed: a process that includes enough such files runs out of descriptors, after which every existing file is treated as missing"; }
			o["out"] = digest(kind == "TRANSCLUDE" ? got : std::to_string(got_manifest.size()));
			g_log.ev("op", kind + ":" + o.gets("out") + ":" + std::to_string(lib_opens));
			st.insert(kind + "/f" + std::to_string(fmt) + "/c" + std::to_string(ref.cyclic) + "/d" + std::to_string(std::min(ref.depth_max, 5)) + "/o" + std::to_string(std::min<uint64_t>(lib_opens, 12)));
			outs.push(o);
			executed++;
		}
		res["violation"] = viol;
		res["ops"] = outs;
		res["ops_executed"] = executed;
		Json pj = Json::object(); for (auto & kv : probes) pj[kv.first] = kv.second; res["probes"] = pj;
		Json sj = Json::array(); for (auto & x : st) sj.push(x); res["states"] = sj;
		uint64_t fired = 0; for (auto & kv : g_sim.fired) if (kv.first != "realloc_moved_forced") fired += kv.second;
		Json ex = Json::object(); ex["cyclic"] = any_cycle; ex["depth"] = max_depth; ex["fired"] = (int64_t)fired; ex["files"] = (int64_t)plan.at("world").at("files").size(); res["extra"] = ex;
		return res;
	}

	Json judge(const Json & plan, const ChildOutcome & out, Ctx &) override {
		if (out.status == "stepcap") {
			// clause (a): the run did not end within the bound computed from the world
			Json v = Json::object();
			v["clause"] = "non_termination_or_unbounded"; v["op"] = out.last_op;
			size_t nl = out.stderr_head.find('\n');
			v["detail"] = out.stderr_head.substr(0, nl) + " exceeded (caps: " + plan.at("cap").dump() + ", basic blocks " + std::to_string(plan.geti("step_cap")) + ")";
			return v;
		}
		if (out.status != "finished") {
			// a stack overflow from unbounded nesting is the same violation
			if (out.stderr_head.find("stack-overflow") != std::string::npos) {
				Json v = Json::object(); v["clause"] = "non_termination_or_unbounded"; v["op"] = out.last_op; v["detail"] = "stack overflow inside transclusion"; return v;
			}
			return Json();
		}
		return out.result.at("violation");
	}
	Json isolate(const Json & plan, int k) override {
		Json p = plan; Json ops = Json::array(); ops.push(plan.at("ops")[(size_t)k]); p["ops"] = ops; return p;
	}
	bool crash_in_scope() const override { return true; }     // every operation already is "first in a fresh process"; a crash here is the transcluder failing on this world
	bool nontrivial(const Json &, const Json & result) override {
		const Json & e = result.at("extra");
		return e.geti("files") >= 2 && (e.getb("cyclic") || e.geti("fired") > 0 || e.geti("depth") >= 3);
	}
	std::vector<Json> simplify(const Json & plan) override {
		std::vector<Json> c;
		const Json & kn = plan.at("knobs");
		if (kn.geti("dstring_start") != 1024) { Json p = plan; p["knobs"]["dstring_start"] = 1024; c.push_back(p); }
		if (kn.geti("slab_objects") != 1024) { Json p = plan; p["knobs"]["slab_objects"] = 1024; c.push_back(p); }
		if (kn.geti("read_chunk") != 0) { Json p = plan; p["knobs"]["read_chunk"] = 0; c.push_back(p); }
		const Json & files = plan.at("world").at("files");
		for (auto & kv : files.o) {
			// drop a file, its faults, its extra versions, halves of its lines
			{ Json p = plan; p["world"]["files"].erase(kv.first); c.push_back(p); }
			if (kv.second.at("faults").size()) { Json p = plan; p["world"]["files"][kv.first]["faults"] = Json::array(); c.push_back(p); }
			if (kv.second.at("versions").size() > 1) { Json p = plan; p["world"]["files"][kv.first]["versions"].a.resize(1); c.push_back(p); }
			if (kv.second.at("versions").size()) {
				std::string s = kv.second.at("versions")[(size_t)0].s;
				std::vector<std::string> lines; size_t a = 0;
				while (a < s.size()) { size_t b = s.find('\n', a); if (b == std::string::npos) b = s.size() - 1; lines.push_back(s.substr(a, b + 1 - a)); a = b + 1; }
				for (size_t i = 0; i < lines.size() && lines.size() > 1; i++) { std::string t; for (size_t j = 0; j < lines.size(); j++) if (j != i) t += lines[j]; Json p = plan; p["world"]["files"][kv.first]["versions"][(size_t)0] = t; c.push_back(p); }
			}
		}
		const Json & ops = plan.at("ops");
		for (size_t k = 0; k < ops.size(); k++) {
			if (ops[k].has("fmt") && ops[k].geti("fmt") != 0) { Json p = plan; p["ops"][k]["fmt"] = 0; c.push_back(p); }
			if (ops[k].getb("hold_stack")) { Json p = plan; p["ops"][k]["hold_stack"] = false; c.push_back(p); }
		}
		return c;
	}
	Json sample(const Json & plan) override {
		Json s = Json::object();
		Json fl = Json::object();
		for (auto & kv : plan.at("world").at("files").o) { Json d = Json::object(); if (kv.second.getb("dir")) d["dir"] = true; else { d["content"] = kv.second.at("versions")[(size_t)0].s.substr(0, 400); if (kv.second.at("faults").size()) d["faults"] = kv.second.at("faults"); if (kv.second.at("versions").size() > 1) d["versions"] = (int64_t)kv.second.at("versions").size(); } fl[kv.first] = d; }
		s["files"] = fl; s["ops"] = plan.at("ops"); s["cap"] = plan.at("cap");
		return s;
	}
};
EngineReg reg(new InclEngine());
}
#endif
