// Engine `thr` (C17): T real threads, each converting its own stream of documents with its own
// engines, exactly one running at a time under a seeded scheduler that pre-empts at shared
// accesses.  Oracle: (1) no data race (own happens-before detector), (2) every thread obtains
// exactly the bytes its stream gives when run alone in a fresh process.
#if defined(VARIANT_T)
#include "libapi.h"
#include "docgen.h"
#include "thrsim.h"

uint64_t thr_shadow_overflow();
std::string thr_symbol_off(uint32_t off);
extern uint64_t g_thr_step_cap;

namespace {

std::string g_asset_dir;      // set by execute() before any worker thread exists (memory the main thread wrote before start is ordered by thread start)

struct Job { const Json * plan; std::vector<std::vector<size_t>> by_thread; std::vector<Json> outs; int last_started = -1; };

std::string one_conv(const Json & op, const std::string & doc) {
	std::string fam = op.gets("family", "s"), call = op.gets("call", "convert"), kind = op.gets("k", "CONV");
	unsigned long ext = (unsigned long)op.geti("ext");
	short fmt = (short)op.geti("fmt"), lang = (short)op.geti("lang");
	std::string out;
	// package formats may collect their assets from a real (read-only) directory shipped with the simulator: the asset readers and the zip
	// assembly then run under the scheduler too
	const char * dir = op.getb("dir") ? g_asset_dir.c_str() : NULL;
	if (kind == "META") {
		// the other text-accepting entry points an embedder calls from its threads: metadata queries and an update
		std::string c = doc; size_t end = 0;
		bool h = mmd_string_has_metadata(&c[0], &end);
		out = h ? "has:" + std::to_string(end) : "none";
		c = doc; char * k = mmd_string_metadata_keys(&c[0]); if (k) { out += "|keys:"; out += k; free(k); }
		c = doc; char * v = mmd_string_metavalue_for_key(&c[0], "title"); if (v) { out += "|title:"; out += v; free(v); }
		char * u = mmd_string_update_metavalue_for_key(doc.c_str(), op.geti("lang") % 2 ? "title" : "New Key", "updated *value*"); if (u) { out += "|upd:"; out += u; free(u); }
		mmd_engine * e = mmd_engine_create_with_string(doc.c_str(), ext);
		char * k2 = mmd_engine_metadata_keys(e); if (k2) { out += "|ekeys:"; out += k2; free(k2); }
		char * r = mmd_engine_convert(e, fmt); if (r) { out += "|conv:"; out += r; free(r); }
		mmd_engine_free(e, true);
		return out;
	}
	if (kind == "CRITIC") {
		DString * d = d_string_new(doc.c_str());
		if (op.geti("lang") % 2) mmd_critic_markup_accept(d); else mmd_critic_markup_reject(d);
		out.assign(d->str, d->currentStringLength);
		char * r = mmd_d_string_convert(d, ext, fmt, lang); if (r) { out += "|conv:"; out += r; free(r); }
		d_string_free(d, true);
		return out;
	}
	if (kind == "TRANSCLUDE") {
		// no simulated files in this variant: every target is missing, the path handling, the guard stack and the manifest still run
		DString * d = d_string_new(("Title: t\ntransclude base: sub\n\n" + doc + "\n{{a.txt}} {{b.*}} {{/nonexistent-mmdsim/c.txt}} {{TOC}}\n").c_str());
		struct stack * m = mmd_d_string_transclusion_manifest(d, "/nonexistent-mmdsim", "/nonexistent-mmdsim/top.txt");
		if (m) { for (size_t i = 0; i < m->size; i++) { char * x = (char *)stack_peek_index(m, i); out += x ? x : "?"; out += ";"; free(x); } stack_free(m); }
		mmd_transclude_source(d, "/nonexistent-mmdsim", "/nonexistent-mmdsim/top.txt", fmt, NULL, NULL);
		out.append(d->str, d->currentStringLength);
		d_string_free(d, true);
		return out;
	}
	if (kind == "IMPORT") {
		// OPML / iThoughts import: the reader, its lexer and parser are part of the library too
		DString * r = (ext & X_PARSE_ITMZ) ? mmd_string_convert_itmz_to_text(doc.c_str()) : mmd_string_convert_opml_to_text(doc.c_str());
		if (r) { out.assign(r->str, r->currentStringLength); d_string_free(r, true); }
		char * c2 = mmd_string_convert(doc.c_str(), ext, fmt, lang); if (c2) { out += "|conv:"; out += c2; free(c2); }
		return out;
	}
	if (fam == "e") {
		// a per-thread engine, reused for two conversions
		mmd_engine * e = mmd_engine_create_with_string(doc.c_str(), ext);
		mmd_engine_set_language(e, lang);
		char * r1 = mmd_engine_convert(e, fmt);
		char * r2 = mmd_engine_convert(e, fmt);
		if (r1) out = r1;
		if (r2) { out += "\n--again--\n"; out += r2; }
		free(r1); free(r2);
		mmd_engine_free(e, true);
	} else if (fam == "s") {
		if (call == "convert") { char * r = mmd_string_convert(doc.c_str(), ext, fmt, lang); if (r) out = r; free(r); }
		else { DString * r = mmd_string_convert_to_data(doc.c_str(), ext, fmt, lang, dir); if (r) { out.assign(r->str, r->currentStringLength); d_string_free(r, true); } }
	} else {
		DString * d = d_string_new(doc.c_str());
		if (call == "convert") { char * r = mmd_d_string_convert(d, ext, fmt, lang); if (r) out = r; free(r); }
		else { DString * r = mmd_d_string_convert_to_data(d, ext, fmt, lang, dir); if (r) { out.assign(r->str, r->currentStringLength); d_string_free(r, true); } }
		d_string_free(d, true);
	}
	return out;
}

void worker_body(int tid, void * arg) {
	Job * job = (Job *)arg;
	const Json & plan = *job->plan;
	const Json & ops = plan.at("ops");
	const Json & docs = plan.at("docs");
	for (size_t idx : job->by_thread[(size_t)tid]) {
		const Json & op = ops[idx];
		job->last_started = (int)idx;
		child_mark_op((int)idx);
		uint64_t r0 = g_thr.rand_draws_by[tid], t0 = g_thr.time_calls_by[tid];
		std::string out = one_conv(op, docs[(size_t)op.geti("doc") % docs.size()].s);
		Json o = Json::object();
		o["t"] = tid; o["out"] = digest(out);
		o["rand"] = (int64_t)(g_thr.rand_draws_by[tid] - r0);
		o["time"] = (int64_t)(g_thr.time_calls_by[tid] - t0);
		job->outs[idx] = o;
	}
}

std::string strip_off(const std::string & s) { size_t p = s.find('+'); return p == std::string::npos ? s : s.substr(0, p); }

struct ThrEngine : Engine {
	const char * name() const override { return "thr"; }
	const char * property() const override { return "C17"; }
	std::string rule() const override {
		return "plan = 2..4 threads, each with its own stream of 1..4 operations - conversions (documents x 13 formats x extension sets; c-string, DString and per-thread reused-engine families), metadata queries/updates, CriticMarkup accept/reject, transclusion against missing files, OPML/iThoughts import - pool compiled out; "
		       "one thread runs at a time, a seeded scheduler pre-empts at every instrumented access to memory another thread touched, at every access to the library's writable segment, at every "
		       "libc call with hidden state (rand, srand, time, localtime, gmtime, ctime, asctime, strtok, setenv, tmpnam, setlocale) and at 1/64 of function entries. Oracle: own happens-before race detector over all instrumented accesses (no synchronisation exists "
		       "between workers) + per-thread outputs equal the thread's stream run alone in a fresh process (operations that drew libc randomness excepted). Distinct = plan hash (schedule seed included); "
		       "non-trivial = >=2 threads that each executed >=1 conversion and >=1 pre-emption happened inside the library.";
	}

	Json plan(uint64_t seed, const std::string & tier) override {
		Rng w = substream(seed, "workload"), sc = substream(seed, "schedule"), en = substream(seed, "env");
		Json p = Json::object();
		p["engine"] = "thr";
		int nthreads = (int)w.range(2, 4);
		p["nthreads"] = nthreads;
		p["schedule_seed"] = (int64_t)(sc.next() >> 2);
		static const int dens[] = {2, 3, 5, 9, 17};
		p["switch_den"] = dens[sc.below(5)];
		p["env"] = gen_env(en);
		DocOpts dopt; dopt.images = true;
		dopt.blocks_max = 8;
		if (w.chance(1, 5)) dopt.emails = false;
		else if (w.chance(1, 3)) dopt.email_heavy = true;
		int ndocs = (int)w.range(1, 4);
		Json docs = Json::array();
		for (int i = 0; i < ndocs; i++) {
			std::string d = pick_doc(w, dopt);
			if (d.size() > 8192) d = gen_doc(w, dopt);
			docs.push(d);
		}
		int import_doc = -1;
		unsigned long import_ext = X_PARSE_OPML;
		if (!opml_corpus().empty() && w.chance(1, 5)) {
			import_doc = (int)w.below((uint64_t)ndocs);
			if (!itmz_corpus().empty() && w.chance(1, 3)) { docs[(size_t)import_doc] = itmz_corpus()[w.below(itmz_corpus().size())]; import_ext = X_PARSE_ITMZ; }
			else docs[(size_t)import_doc] = opml_corpus()[w.below(opml_corpus().size())];
		}
		p["docs"] = docs;
		Json ops = Json::array();
		bool use_pkg = w.chance(1, 3), allow_random = w.chance(1, 4), use_other = w.chance(1, 2);
		for (int t = 0; t < nthreads; t++) {
			int n = (int)w.range(1, tier == "thorough" ? 4 : 3);
			for (int i = 0; i < n; i++) {
				Json o = Json::object();
				o["t"] = t; o["k"] = "CONV";
				static const char * fam[] = {"s", "s", "d", "e"};
				o["family"] = fam[w.below(4)];
				o["call"] = w.chance(2, 3) ? "convert" : "to_data";
				o["doc"] = (int64_t)w.below((uint64_t)ndocs);
				static const int allf[] = {FMT_HTML, FMT_HTML, FMT_HTML, FMT_LATEX, FMT_BEAMER, FMT_MEMOIR, FMT_FODT, FMT_OPML, FMT_ITMZ, FMT_MMD, FMT_HTML_WITH_ASSETS};
				o["fmt"] = allf[w.below(11)];
				if (use_pkg && o.gets("family") != "e" && w.chance(1, 2)) { static const int pf[] = {FMT_EPUB, FMT_ODT, FMT_TEXTBUNDLE_COMPRESSED}; o["fmt"] = pf[w.below(3)]; o["call"] = "to_data"; if (w.chance(1, 2)) o["dir"] = true; }
				o["ext"] = (int64_t)gen_ext(w, allow_random);
				o["lang"] = (int64_t)w.below(7);
				if (use_other) {
					unsigned ok = (unsigned)w.below(12);
					if (ok == 0) o["k"] = "META";
					else if (ok == 1) o["k"] = "CRITIC";
					else if (ok == 2) o["k"] = "TRANSCLUDE";
					else if (ok == 3 && import_doc >= 0) { o["k"] = "IMPORT"; o["doc"] = import_doc; }
					if (o.gets("k") != "CONV") { static const int tf[] = {FMT_HTML, FMT_LATEX, FMT_FODT, FMT_OPML, FMT_MMD}; o["fmt"] = tf[w.below(5)]; o["family"] = "s"; o["call"] = "convert"; }
				}
				if ((int)o.geti("doc") == import_doc) {
					// an OPML / iThoughts source: every use of it is an import (c-string family, so the caller's text is not replaced under a later op)
					o["ext"] = (int64_t)(((unsigned long)o.geti("ext") & ~(X_PARSE_OPML | X_PARSE_ITMZ)) | import_ext);
					if (o.gets("k") == "CONV") {
						o["family"] = "s";
						// to_data + FORMAT_MMD on an import source is the input-level use-after-free of DESIGN section 6 (C01, not claimed):
						// it would only turn the whole run into an out-of-scope one
						if (o.gets("call") == "to_data" && o.geti("fmt") == FMT_MMD) o["call"] = "convert";
					}
					else if (o.gets("k") != "IMPORT") o["k"] = "IMPORT";
				}
				ops.push(o);
			}
		}
		p["ops"] = ops;
		return p;
	}

	Json execute(const Json & plan, bool verbose) override {
		apply_env(plan);
		g_asset_dir = std::string(getenv("MMDSIM_VERIF") ? getenv("MMDSIM_VERIF") : "/verif") + "/sim/data/assets";
		int nthreads = (int)plan.geti("nthreads", 2);
		const Json & ops = plan.at("ops");
		Job job;
		job.plan = &plan;
		job.by_thread.resize((size_t)nthreads);
		job.outs.resize(ops.size());
		int active_threads = 0;
		for (size_t i = 0; i < ops.size(); i++) { int t = (int)ops[i].geti("t"); if (t >= 0 && t < nthreads) job.by_thread[(size_t)t].push_back(i); }
		for (auto & v : job.by_thread) if (!v.empty()) active_threads++;
		g_thr.switch_num = 1; g_thr.switch_den = (unsigned)std::max<int64_t>(2, plan.geti("switch_den", 3));
		g_thr_step_cap = (uint64_t)plan.geti("access_cap", 300000000);      // ~400x a typical run
		thr_run(nthreads, (uint64_t)plan.geti("schedule_seed", 1), worker_body, &job);
		Json res = Json::object(), outs = Json::array(), viol;
		for (auto & o : job.outs) outs.push(o);
		res["ops"] = outs;
		res["ops_executed"] = (int64_t)ops.size();
		g_log.ev("schedule", g_thr.schedule_hash, g_thr.switches);
		for (auto & o : job.outs) g_log.ev("out", o.gets("out"));
		// (1) races
		Json races = Json::array();
		std::set<std::string> locs;
		for (auto & r : g_thr.races) {
			Json j = Json::object();
			std::string loc = thr_symbol(r.addr);
			j["location"] = loc; j["size"] = r.size;
			Json a = Json::object(); a["thread"] = r.tid_a; a["write"] = r.write_a; a["site"] = r.pc_a ? thr_symbol(r.pc_a) : std::string("?");
			Json b = Json::object(); b["thread"] = r.tid_b; b["write"] = r.write_b; b["site"] = thr_symbol(r.pc_b);
			j["a"] = a; j["b"] = b;
			races.push(j);
			locs.insert(strip_off(loc));
			g_log.ev("race", strip_off(loc) + "@" + strip_off(a.gets("site")) + "/" + strip_off(b.gets("site")));
		}
		if (races.size()) {
			std::string cls;
			for (auto & l : locs) { if (!cls.empty()) cls += ","; cls += l; }
			viol = Json::object();
			viol["clause"] = "data_race"; viol["class"] = cls;
			const Json & f = races[(size_t)0];
			viol["detail"] = f.gets("location") + ": thread " + std::to_string(f.at("a").geti("thread")) + (f.at("a").getb("write") ? " writes at " : " reads at ") + f.at("a").gets("site") +
							 ", thread " + std::to_string(f.at("b").geti("thread")) + (f.at("b").getb("write") ? " writes at " : " reads at ") + f.at("b").gets("site") + " without synchronisation";
			viol["races"] = races;
		}
		res["violation"] = viol;
		Json pj = Json::object();
		pj["yield_points"] = (int64_t)g_thr.yield_points; pj["preemptions"] = (int64_t)g_thr.switches; pj["shared_accesses"] = (int64_t)g_thr.shared_accesses;
		pj["instrumented_accesses"] = (int64_t)g_thr.accesses; pj["function_entries"] = (int64_t)g_thr.func_entries; pj["shadow_overflow"] = (int64_t)thr_shadow_overflow();
		pj["preempt_in_ran_array"] = (int64_t)g_thr.preempt_in_ran_array; pj["preempt_in_zip"] = (int64_t)g_thr.in_zip_overlap; pj["preempt_in_html_export"] = (int64_t)g_thr.in_html_export_overlap;
		for (auto & o2 : ops.a) { std::string kk = o2.gets("k", "CONV"); if (kk != "CONV") pj["ops_" + kk] = pj.geti("ops_" + kk) + 1; }
		res["probes"] = pj;
		res["schedule_hash"] = hex64(g_thr.schedule_hash);
		if (verbose) {
			// the explicit schedule (a pure function of schedule_seed and the code): which thread got the baton, and where the giver stood
			Json tr = Json::array();
			size_t n = 0;
			for (auto & h : g_thr.trace) { if (n++ >= 400) break; tr.push("T" + std::to_string(h.first) + "@" + thr_symbol_off(h.second)); }
			res["schedule_trace_head"] = tr; res["schedule_handovers"] = (int64_t)g_thr.switches;
		}
		Json st = Json::array();
		st.push("sched:" + hex64(g_thr.schedule_hash));
		for (auto & l : locs) st.push("raceloc:" + l);
		res["states"] = st;
		Json ex = Json::object(); ex["active_threads"] = active_threads; ex["switches"] = (int64_t)g_thr.switches; res["extra"] = ex;
		return res;
	}

	// The access cap (the simulator's watchdog for this engine) comes from the work itself: each thread's stream is run
	// alone first (these reference runs are needed for the interference oracle anyway and are memoised); the amount of
	// instrumented work does not depend on the schedule, so 3x the sum + slack bounds any correct concurrent run.
	void prepare(Json & plan, Ctx & ctx) override {
		if (plan.geti("nthreads", 1) < 2 || plan.has("access_cap")) return;
		int nthreads = (int)plan.geti("nthreads", 2);
		int64_t sum = 0;
		for (int t = 0; t < nthreads; t++) {
			bool any = false; for (auto & o : plan.at("ops").a) if ((int)o.geti("t") == t) any = true;
			if (!any) continue;
			ChildOutcome r = ctx.run_ref(solo(plan, t));
			if (r.status != "finished") return;      // let the run proceed under the default cap; judge() will sort it out
			sum += r.result.at("probes").geti("instrumented_accesses");
		}
		plan["access_cap"] = 3 * sum + 500000;
	}
	// a thread's stream run alone (still through the scheduler, with one worker)
	Json solo(const Json & plan, int t) {
		Json p = plan;
		Json ops = Json::array();
		for (auto & o : plan.at("ops").a) if ((int)o.geti("t") == t) { Json c = o; c["t"] = 0; ops.push(c); }
		p["ops"] = ops; p["nthreads"] = 1;
		p.erase("access_cap");
		return p;
	}
	Json isolate(const Json & plan, int k) override {
		if (k < 0 || (size_t)k >= plan.at("ops").size()) return Json();
		Json p = plan; Json ops = Json::array(); Json c = plan.at("ops")[(size_t)k]; c["t"] = 0; ops.push(c); p["ops"] = ops; p["nthreads"] = 1; return p;
	}

	Json judge(const Json & plan, const ChildOutcome & out, Ctx & ctx) override {
		if (out.status != "finished") {
			// the concurrent run crashed, called exit() or span past the access cap: if every thread's stream finishes when run
			// alone in a fresh process, the failure needs the overlap - interference in its bluntest form
			if (out.status == "timeout" || out.status == "harness") return Json();
			int nthreads = (int)plan.geti("nthreads", 2);
			for (int t = 0; t < nthreads; t++) {
				bool any = false; for (auto & o : plan.at("ops").a) if ((int)o.geti("t") == t) any = true;
				if (!any) continue;
				ChildOutcome r = ctx.run_ref(solo(plan, t));
				if (r.status != "finished") { Json oos = Json::object(); oos["out_of_scope"] = "thread " + std::to_string(t) + " alone: " + r.status; return oos; }
			}
			Json v = Json::object();
			v["clause"] = "concurrent_run_fails"; v["class"] = out.status; v["op"] = out.last_op;
			size_t nl = out.stderr_head.find('\n');
			v["detail"] = "threads overlapping: " + out.status + (out.status == "signal" ? " " + std::to_string(out.sig) : "") + " (" + out.stderr_head.substr(0, std::min<size_t>(nl, 80)) + "); every thread's stream finishes when run alone";
			return v;
		}
		if (!out.result.at("violation").is_null()) return out.result.at("violation");
		// (2) interference: per-thread outputs equal the thread's stream alone in a fresh process
		int nthreads = (int)plan.geti("nthreads", 2);
		const Json & ops = plan.at("ops");
		const Json & outs = out.result.at("ops");
		for (int t = 0; t < nthreads; t++) {
			std::vector<size_t> idx;
			for (size_t i = 0; i < ops.size(); i++) if ((int)ops[i].geti("t") == t) idx.push_back(i);
			if (idx.empty()) continue;
			ChildOutcome r = ctx.run_ref(solo(plan, t));
			if (r.status != "finished") continue;
			const Json & ro = r.result.at("ops");
			for (size_t j = 0; j < idx.size() && j < ro.size(); j++) {
				const Json & got = outs[idx[j]];
				if (got.geti("rand") > 0 || ro[j].geti("rand") > 0) continue;     // consumed libc randomness: serial output is itself not a function of the source
				if (got.gets("out") != ro[j].gets("out")) {
					Json v = Json::object();
					v["clause"] = "thread_output_differs_from_serial"; v["class"] = "fmt" + std::to_string(ops[idx[j]].geti("fmt")); v["op"] = (int64_t)idx[j];
					v["detail"] = "thread " + std::to_string(t) + " got " + got.gets("out") + ", alone in a fresh process the same conversion gives " + ro[j].gets("out");
					return v;
				}
			}
		}
		return Json();
	}
	bool nontrivial(const Json &, const Json & result) override {
		return result.at("extra").geti("active_threads") >= 2 && result.at("extra").geti("switches") >= 1;
	}
	bool fixup(Json & plan) override {
		// renumber threads densely
		std::map<int, int> m;
		for (auto & o : plan["ops"].a) { int t = (int)o.geti("t"); if (!m.count(t)) { int n = (int)m.size(); m[t] = n; } o["t"] = m[t]; }
		plan["nthreads"] = (int64_t)std::max<size_t>(m.size(), 1);
		return plan.at("ops").size() > 0;
	}
	std::vector<Json> simplify(const Json & plan) override {
		std::vector<Json> c;
		const Json & docs = plan.at("docs");
		for (size_t d = 0; d < docs.size(); d++) {
			const std::string & s = docs[d].s;
			if (s.size() < 2) continue;
			size_t mid = s.find('\n', s.size() / 2);
			if (mid == std::string::npos || mid + 1 >= s.size()) mid = s.size() / 2;
			Json p = plan; p["docs"][d] = s.substr(0, mid + 1); c.push_back(p);
			Json q = plan; q["docs"][d] = s.substr(mid + 1); c.push_back(q);
		}
		const Json & ops = plan.at("ops");
		for (size_t k = 0; k < ops.size(); k++) {
			const Json & o = ops[k];
			if (o.geti("ext") != 0) { Json p = plan; p["ops"][k]["ext"] = 0; c.push_back(p); }
			if (o.geti("fmt") != 0) { Json p = plan; p["ops"][k]["fmt"] = 0; p["ops"][k]["call"] = "convert"; c.push_back(p); }
			if (o.geti("lang") != 0) { Json p = plan; p["ops"][k]["lang"] = 0; c.push_back(p); }
			if (o.gets("family") != "s") { Json p = plan; p["ops"][k]["family"] = "s"; c.push_back(p); }
		}
		return c;
	}
	Json sample(const Json & plan) override {
		Json s = Json::object();
		s["nthreads"] = plan.at("nthreads"); s["schedule_seed"] = plan.at("schedule_seed"); s["switch_den"] = plan.at("switch_den");
		Json ops = Json::array();
		for (auto & o : plan.at("ops").a) ops.push("T" + std::to_string(o.geti("t")) + ":" + o.gets("k") + ":" + o.gets("family") + "/" + o.gets("call") + " doc" + std::to_string(o.geti("doc")) + " fmt=" + std::to_string(o.geti("fmt")) + " ext=" + std::to_string(o.geti("ext")));
		s["ops"] = ops;
		Json dl = Json::array(); for (auto & d : plan.at("docs").a) dl.push((int64_t)d.s.size()); s["doc_bytes"] = dl;
		return s;
	}
};
EngineReg reg(new ThrEngine());
}
#endif
