// Engine `hist` (C05): histories of API calls in one process (fresh-engine calls, reused engines,
// metadata queries, CriticMarkup, transclusion, pool brackets) - every conversion must equal the
// same call made first in a fresh process with the same environment (clock, libc PRNG state,
// simulated files), and must leave the caller's source unchanged.
#if defined(VARIANT_A) || defined(VARIANT_B)
#include "libapi.h"
#include "docgen.h"
#include "simfs.h"

extern "C" {
	long __real_ran_num_next(void);
	static uint64_t g_obf_draws = 0;
	long __wrap_ran_num_next(void) { g_obf_draws++; return __real_ran_num_next(); }
}

namespace {

bool is_conv(const std::string & k) { return k == "CONV" || k == "E_CONVERT" || k == "E_TO_DATA" || k == "E_EXPORT" || k == "CLI"; }
bool pkg_format(int f) { return f == FMT_EPUB || f == FMT_ODT || f == FMT_TEXTBUNDLE || f == FMT_TEXTBUNDLE_COMPRESSED; }

struct Slot {
	mmd_engine * e = nullptr;
	DString * own = nullptr;      // caller-owned DString when created with_dstring
	std::string text;             // what the caller's source must still be
	bool parsed = false, exported = false, stale = false, lang_changed = false;
};

struct HistEngine : Engine {
	const char * name() const override { return "hist"; }
	const char * property() const override { return "C05"; }
	std::string rule() const override {
		return "plan = 1..40 API calls in one process over <=6 documents and <=4 option sets: fresh-engine conversions (c-string and DString families, convert / convert_to_data), "
		       "engine slots (create, set language, set text, in-place metadata update, convert, convert_to_data, parse, parse_substring, export, has_metadata, keys, value, reset, free), OPML/iThoughts import sources, documents nested beyond the parser's depth guard, ragged tables, noise (CriticMarkup accept/reject, "
		       "transclusion, manifest, string-family metadata queries), pool init/drain brackets; or one in-process CLI batch run over several files (7 formats, random option flags). Every operation gets its own clock and libc-PRNG state; in half of the runs fresh heap memory holds history-dependent garbage; "
		       "oracle = byte equality with the same call as the first library call of a fresh process under the same environment. Distinct = plan hash; non-trivial = >=2 ops and at least one "
		       "output-producing op issued in an abstract pre-state other than the initial one.";
	}

	// ------------------------------------------------------------------ planner
	struct PSlot { bool live = false, parsed = false, exported = false, stale = false, opml = false, spent = false; int doc = 0; };
	// An engine created with EXT_PARSE_OPML replaces its text by the converted text at its first parse; what a second parse of
	// that engine means is not stated anywhere, so such an engine gets one parse/conversion only.
	static bool parses(const std::string & k) { return k == "E_CONVERT" || k == "E_TO_DATA" || k == "E_PARSE" || k == "E_PARSE_SUB"; }

	Json plan(uint64_t seed, const std::string & tier) override {
		Rng kn = substream(seed, "knobs"), w = substream(seed, "workload"), en = substream(seed, "env");
		Json p = Json::object();
		p["engine"] = "hist";
		Json knobs = Json::object();
		static const int starts[] = {1, 3, 16, 64, 1024, 1024, 1024};
		static const int slabs[] = {1, 3, 17, 1024, 1024, 1024};
		knobs["dstring_start"] = starts[kn.below(7)];
		knobs["slab_objects"] = slabs[kn.below(6)];
		knobs["realloc"] = kn.chance(1, 3) ? 1 : 0;
		knobs["malloc_fill"] = kn.chance(1, 2) ? 1 : 0;      // fresh heap memory holds garbage that depends on the allocation history (core.h)
		p["knobs"] = knobs;
		DocOpts dopt; dopt.images = true;
		if (w.chance(1, 4)) dopt.emails = false;                  // swarm
		else if (w.chance(1, 3)) dopt.email_heavy = true;
		int ndocs = (int)w.range(1, 6);
		Json docs = Json::array();
		for (int i = 0; i < ndocs; i++) docs.push(pick_doc(w, dopt));
		// sometimes one document is OPML: conversions of it carry EXT_PARSE_OPML and may replace the caller's source in place (documented)
		int opml_doc = -1;
		unsigned long import_ext = X_PARSE_OPML;
		if (!opml_corpus().empty() && w.chance(1, 6)) {
			opml_doc = (int)w.below((uint64_t)ndocs);
			if (!itmz_corpus().empty() && w.chance(1, 3)) { docs[(size_t)opml_doc] = itmz_corpus()[w.below(itmz_corpus().size())]; import_ext = X_PARSE_ITMZ; }
			else docs[(size_t)opml_doc] = opml_corpus()[w.below(opml_corpus().size())];
		}
		// one plan in ten is "one engine, several documents" on purpose: the first text carries metadata that configures the conversion (language, quotes
		// language, base header level, css, title), the second one carries none and is sensitive to exactly those settings
		bool one_engine_many_docs = w.chance(1, 10);
		if (one_engine_many_docs) {
			while (docs.size() < 2) { docs.push(std::string()); ndocs++; }
			DocOpts plain = dopt; plain.meta = false; plain.toc = false;
			static const char * langs[] = {"de", "fr", "sv", "es", "nl"};
			docs[(size_t)0] = std::string("Title: configured document\nLanguage: ") + langs[w.below(5)] + "\nQuotes Language: " + (w.chance(1, 2) ? "german" : "french") + "\nBase Header Level: " + std::to_string(2 + w.below(2)) +
							  "\nCSS: style.css\nHTML Header: <!-- h -->\n\n" + gen_doc(w, plain);
			docs[(size_t)1] = "# Heading\n\n\"quoted\" and 'single' text[^a] with -- dashes...\n\n[^a]: a note \"in quotes\"\n\n" + gen_doc(w, plain);
		}
		if (w.chance(1, 12)) {
			// swarm: documents nested beyond the parser's depth guard (1000 levels) - legal input that makes the guard itself part of the history
			int nd = (int)w.range(1, 2);
			for (int i = 0; i < nd; i++) {
				int di = (int)w.below((uint64_t)ndocs);
				if (di == opml_doc) continue;
				std::string d = "Opening paragraph.\n\n";
				int chains = (int)w.range(1, 3);
				for (int c = 0; c < chains; c++) {
					int depth = (int)w.range(995, 1100);
					for (int j = 0; j < depth; j++) d += "> ";
					d += "deep *" + std::to_string(c) + "*\n\nBetween " + std::to_string(c) + ".\n\n";
				}
				d += "Closing paragraph.\n";
				docs[(size_t)di] = d;
			}
			p["deep_docs"] = true;
		}
		if (w.chance(1, 12)) {
			// swarm: one or two documents with dozens of long abbreviation / glossary terms (the search trie outgrows its initial node array)
			int nd = (int)w.range(1, 2);
			for (int i = 0; i < nd; i++) { int di = (int)w.below((uint64_t)ndocs); if (di != opml_doc) docs[(size_t)di] = gen_glossary_doc(w); }
		}
		p["docs"] = docs;
		p["opml_doc"] = opml_doc;
		// a few simulated files so that transclusion and assets can be part of the noise
		Json world = Json::object(), files = Json::object();
		auto file = [&](const std::string & path, const std::string & content) { Json f = Json::object(); Json v = Json::array(); v.push(content); f["versions"] = v; files[path] = f; };
		file("/sim/a/inc.txt", "included *text* <x@y.zz>\n");
		file("/sim/a/img0.png", std::string("\x89PNG\r\n\x1a\n", 8) + "0000");
		file("/sim/a/img1.png", std::string("\x89PNG\r\n\x1a\n", 8) + "11111111");
		file("/sim/a/style.css", "body { color: red; }\n");
		world["files"] = files;
		p["world"] = world;
		int nopt = (int)w.range(1, 4);
		std::vector<unsigned long> exts;
		bool allow_random = w.chance(1, 3);
		for (int i = 0; i < nopt; i++) exts.push_back(gen_ext(w, allow_random));
		Json ops = Json::array();

		if (w.chance(1, 12)) {
			// the user-visible batch scenario: multimarkdown -b f1 f2 ... in one process
			Json o = Json::object();
			o["k"] = "CLI";
			Json fl = Json::array();
			int nf = (int)w.range(2, 4);
			for (int i = 0; i < nf; i++) fl.push((int64_t)w.below((uint64_t)ndocs));
			static const int cf[] = {FMT_HTML, FMT_HTML, FMT_HTML, FMT_LATEX, FMT_LATEX, FMT_BEAMER, FMT_MEMOIR, FMT_FODT, FMT_OPML, FMT_MMD};      // formats whose output does not consume the clock-seeded rand()
			o["files"] = fl; o["fmt"] = cf[w.below(10)]; o["env"] = gen_env(en);
			// command line options: whatever they switch on must act on every file of the batch alike
			Json flags = Json::array();
			static const char * fl1[] = {"--nosmart", "--nolabels", "-f", "-s", "-c", "--accept", "--reject", "--notransclude"};
			for (const char * f : fl1) if (w.chance(1, 8)) flags.push(std::string(f));
			if (w.chance(1, 5)) { static const char * lg[] = {"de", "fr", "es", "nl", "sv", "he"}; flags.push(std::string("-l")); flags.push(std::string(lg[w.below(6)])); }
			o["flags"] = flags;
			ops.push(o);
			p["ops"] = ops;
			return p;
		}

		PSlot sl[3];
		int depth = 1;      // variant A: the history starts inside one token_pool_init (variant B ignores pool ops)
		int target = (int)w.range(1, tier == "thorough" ? 40 : 28);
		bool use_eng = w.chance(3, 4), use_noise = w.chance(2, 3), use_pool = w.chance(1, 2), use_pkg = w.chance(1, 4);
		int guard = 0;
		auto fmt_for = [&]() { return gen_text_format(w); };
		if (one_engine_many_docs && opml_doc != 0 && opml_doc != 1) {
			unsigned long ext = X_SMART | X_NOTES | (w.chance(1, 2) ? X_COMPLETE : 0);
			Json c = Json::object(); c["k"] = "E_CREATE"; c["slot"] = 0; c["doc"] = 0; c["ext"] = (int64_t)ext; c["with"] = w.chance(1, 2) ? "string" : "dstring"; ops.push(c);
			Json a = Json::object(); a["k"] = w.chance(1, 2) ? "E_CONVERT" : "E_HAS_META"; a["slot"] = 0; if (a.gets("k") == "E_CONVERT") { a["fmt"] = fmt_for(); a["env"] = gen_env(en); } ops.push(a);
			Json t = Json::object(); t["k"] = "E_SET_TEXT"; t["slot"] = 0; t["doc"] = 1; ops.push(t);
			Json b = Json::object(); b["k"] = "E_CONVERT"; b["slot"] = 0; b["fmt"] = w.chance(1, 2) ? FMT_HTML : fmt_for(); b["env"] = gen_env(en); ops.push(b);
			sl[0].live = true; sl[0].doc = 1; sl[0].parsed = true; sl[0].exported = true;
			use_eng = true;
		}
		while ((int)ops.size() < target && guard++ < 500) {
			Json o = Json::object();
			unsigned k = (unsigned)w.below(100);
			int s = (int)w.below(3);
			PSlot & S = sl[s];
			if (k < 30 || (!use_eng && k < 70)) {
				o["k"] = "CONV"; o["family"] = w.chance(1, 2) ? "s" : "d"; o["call"] = w.chance(2, 3) ? "convert" : "to_data";
				o["doc"] = (int64_t)w.below((uint64_t)ndocs); o["fmt"] = fmt_for(); o["ext"] = (int64_t)exts[w.below(exts.size())]; o["lang"] = (int64_t)w.below(7);
				if ((int)o.geti("doc") == opml_doc) o["ext"] = (int64_t)((unsigned long)o.geti("ext") | import_ext);
				if (o.gets("family") == "d" && w.chance(1, 8)) { o["call"] = "to_file"; }      // mmd_d_string_convert_to_file through the simulated file layer
				if (o.gets("call") == "to_data") {
					if (use_pkg && w.chance(1, 2)) { static const int pf[] = {FMT_EPUB, FMT_ODT, FMT_TEXTBUNDLE_COMPRESSED, FMT_ITMZ}; o["fmt"] = pf[w.below(4)]; }
					if (w.chance(1, 2)) o["dir"] = "/sim/a";
				}
				// convert_to_data / _to_file + FORMAT_MMD on an import source is the input-level use-after-free of DESIGN section 6 (C01, not
				// claimed): it would only turn the whole run into an out-of-scope one
				if ((int)o.geti("doc") == opml_doc && o.gets("call") != "convert" && o.geti("fmt") == FMT_MMD) o["fmt"] = FMT_HTML;
				o["env"] = gen_env(en);
			} else if (k < 70 && use_eng) {
				unsigned j = (unsigned)w.below(100);
				o["slot"] = s;
				if (!S.live) {
					o["k"] = "E_CREATE"; o["doc"] = (int64_t)w.below((uint64_t)ndocs); o["ext"] = (int64_t)exts[w.below(exts.size())]; o["with"] = w.chance(1, 2) ? "string" : "dstring";
					if ((int)o.geti("doc") == opml_doc) o["ext"] = (int64_t)((unsigned long)o.geti("ext") | import_ext);
					S = PSlot(); S.live = true; S.doc = (int)o.geti("doc"); S.opml = ((int)o.geti("doc") == opml_doc);
				} else if (S.opml && S.spent && j < 60) { continue; }
				else if (j < 30) { o["k"] = "E_CONVERT"; o["fmt"] = fmt_for(); o["env"] = gen_env(en); S.parsed = true; S.exported = true; S.stale = false; }
				else if (j < 38) {
					o["k"] = "E_TO_DATA"; o["fmt"] = fmt_for(); o["env"] = gen_env(en);
					if (use_pkg && w.chance(1, 2)) { static const int pf[] = {FMT_EPUB, FMT_ODT, FMT_TEXTBUNDLE_COMPRESSED, FMT_ITMZ}; o["fmt"] = pf[w.below(4)]; }
					if (w.chance(1, 2)) o["dir"] = "/sim/a";
					if (S.opml && o.geti("fmt") == FMT_MMD) o["fmt"] = FMT_HTML;      // see above
					S.parsed = true; S.exported = true; S.stale = false;
				}
				else if (j < 46) { o["k"] = "E_PARSE"; S.parsed = true; S.exported = false; S.stale = false; }
				else if (j < 54) { if (!(S.parsed && !S.exported && !S.stale)) continue; o["k"] = "E_EXPORT"; o["fmt"] = fmt_for(); o["env"] = gen_env(en); S.exported = true; }
				else if (j < 60) { o["k"] = "E_PARSE_SUB"; size_t dl = docs[(size_t)S.doc].s.size(); o["start"] = (int64_t)w.below(dl + 1); o["len"] = w.chance(1, 3) ? -1 : (int64_t)w.below(dl / 2 + 1); S.parsed = false; S.exported = false; S.stale = false; }
				else if (j < 68) { if (S.stale) continue; o["k"] = "E_HAS_META"; }
				else if (j < 74) { if (S.stale) continue; o["k"] = "E_KEYS"; }
				else if (j < 78) { if (S.stale) continue; o["k"] = "E_VALUE"; o["key"] = w.chance(1, 2) ? "title" : w.chance(1, 2) ? "Author" : "css"; }
				else if (j < 82) {
					// the documented in-place edit of the engine's text; later conversions on this engine are judged against a fresh engine
					// that gets the same edit(s) and then the same conversion
					if (S.opml) continue;
					static const char * uk[] = {"title", "Author", "Language", "New Key", "css", "Base Header Level"};
					static const char * uv[] = {"changed *value*", "de", "2", "x & y", "style.css", "A. N. Other"};
					o["k"] = "E_UPDATE"; o["key"] = uk[w.below(6)]; o["value"] = uv[w.below(6)];
					S.parsed = false; S.exported = false; S.stale = false;
				}
				else if (j < 84) { o["k"] = "E_SET_LANG"; o["lang"] = (int64_t)w.below(7); }
				else if (j < 91) {
					// the caller replaces the text the engine works on (mmd_engine_d_string / its own DString) - one engine, several documents
					o["k"] = "E_SET_TEXT"; o["doc"] = (int64_t)w.below((uint64_t)ndocs);
					if ((int)o.geti("doc") == opml_doc || S.doc == opml_doc) continue;       // an engine's extensions are fixed at creation
					S.doc = (int)o.geti("doc"); S.parsed = false; S.exported = false;
				}
				else if (j < 95) { o["k"] = "E_RESET"; S.parsed = false; S.exported = false; S.stale = false; }
				else { o["k"] = "E_FREE"; S = PSlot(); }
				if (S.live && S.opml && o.has("k") && parses(o.gets("k"))) S.spent = true;
			} else if (k < 88 && use_noise) {
				unsigned j = (unsigned)w.below(7);
				o["doc"] = (int64_t)w.below((uint64_t)ndocs);
				if (j == 0) o["k"] = "CRITIC_ACCEPT";
				else if (j == 1) o["k"] = "CRITIC_REJECT";
				else if (j == 2) { o["k"] = "TRANSCLUDE"; o["fmt"] = fmt_for(); }
				else if (j == 3) o["k"] = "MANIFEST";
				else if (j == 4) o["k"] = "S_KEYS";
				else if (j == 5) { o["k"] = "S_VALUE"; o["key"] = "title"; }
				else { o["k"] = "S_UPDATE"; o["key"] = "title"; o["value"] = "changed"; }
			} else if (use_pool) {
				// pool brackets (variant A only; the protocol itself is C18's subject)
				if (w.chance(1, 2)) { o["k"] = "POOL_INIT"; depth++; }
				else if (depth > 1) { o["k"] = "POOL_DRAIN"; depth--; }
				else {
					// drain to zero and start again: every parsed tree becomes stale
					o["k"] = "POOL_CYCLE"; o["free"] = w.chance(1, 2);
					for (auto & x : sl) if (x.live) { x.parsed = x.exported = false; }
				}
			} else continue;
			ops.push(o);
		}
		p["ops"] = ops;
		return p;
	}

	// drop operations whose slot preconditions no longer hold after deletions
	bool fixup(Json & plan) override {
		PSlot sl[3];
		int depth = 1;
		Json ops = Json::array();
		for (auto & o : plan.at("ops").a) {
			std::string k = o.gets("k");
			int s = (int)o.geti("slot") % 3;
			PSlot & S = sl[s];
			if (k == "E_CREATE") { if (S.live) continue; S = PSlot(); S.live = true; S.opml = ((unsigned long)o.geti("ext") & (X_PARSE_OPML | X_PARSE_ITMZ)) != 0; }
			else if (k.compare(0, 2, "E_") == 0) {
				if (!S.live) continue;
				if (S.opml && parses(k)) { if (S.spent) continue; S.spent = true; }
				if (k == "E_CONVERT" || k == "E_TO_DATA") { S.parsed = S.exported = true; S.stale = false; }
				else if (k == "E_PARSE") { S.parsed = true; S.exported = false; S.stale = false; }
				else if (k == "E_EXPORT") { if (!(S.parsed && !S.exported && !S.stale)) continue; S.exported = true; }
				else if (k == "E_PARSE_SUB" || k == "E_RESET" || k == "E_SET_TEXT") { S.parsed = S.exported = false; S.stale = false; }
				else if (k == "E_UPDATE") { if (S.opml) continue; S.parsed = S.exported = false; S.stale = false; }
				else if (k == "E_HAS_META" || k == "E_KEYS" || k == "E_VALUE") { if (S.stale) continue; }
				else if (k == "E_FREE") S = PSlot();
			}
			else if (k == "POOL_INIT") depth++;
			else if (k == "POOL_DRAIN") { if (depth <= 1) continue; depth--; }
			else if (k == "POOL_CYCLE") { if (depth != 1) continue; for (auto & x : sl) if (x.live) { x.parsed = x.exported = false; } }
			ops.push(o);
		}
		plan["ops"] = ops;
		return ops.size() > 0;
	}

	// ------------------------------------------------------------------ execution
	static std::string state_key(Slot * sl, int depth, const std::string & kind) {
		std::string k = g_obf_draws ? "o1" : "o0";
		k += "/d" + std::to_string(std::min(depth, 3));
		for (int i = 0; i < 3; i++) {
			Slot & S = sl[i];
			if (!S.e) { k += "/-"; continue; }
			mmd_engine * e = S.e;
			unsigned bits = 0;
			stack * st[10] = {e->abbreviation_stack, e->citation_stack, e->critic_stack, e->definition_stack, e->footnote_stack, e->glossary_stack, e->header_stack, e->link_stack, e->metadata_stack, e->table_stack};
			for (int j = 0; j < 10; j++) if (st[j] && st[j]->size) bits |= 1u << j;
			k += "/" + std::string(S.parsed ? "P" : "p") + (S.exported ? "X" : "x") + (S.lang_changed ? "L" : "l") + (e->asset_hash ? "A" : "a") + std::to_string(bits);
		}
		return k + "/" + kind;
	}

	static std::string conv_call(const Json & op, const std::string & doc, std::string * src_after) {
		std::string fam = op.gets("family", "s"), call = op.gets("call", "convert");
		unsigned long ext = (unsigned long)op.geti("ext");
		short fmt = (short)op.geti("fmt"), lang = (short)op.geti("lang");
		const char * dir = op.has("dir") ? op.at("dir").s.c_str() : NULL;
		std::string out;
		if (fam == "s") {
			std::string copy = doc;     // heap copy with ASan redzones; compared afterwards
			if (call == "convert") { char * r = IN_LIB(mmd_string_convert(copy.c_str(), ext, fmt, lang)); if (r) out = r; free(r); }
			else { DString * r = IN_LIB(mmd_string_convert_to_data(copy.c_str(), ext, fmt, lang, dir)); if (r) { out.assign(r->str, r->currentStringLength); IN_LIB_V(d_string_free(r, true)); } }
			*src_after = copy;
		} else {
			DString * d = IN_LIB(d_string_new(doc.c_str()));
			if (call == "convert") { char * r = IN_LIB(mmd_d_string_convert(d, ext, fmt, lang)); if (r) out = r; free(r); }
			else if (call == "to_file") {
				IN_LIB_V(mmd_d_string_convert_to_file(d, ext, fmt, lang, dir, "/sim/a/out.bin"));
				auto it = g_sim.files.find("/sim/a/out.bin");
				out = it == g_sim.files.end() ? std::string("<no file written>") : it->second.written;
				if (it != g_sim.files.end()) g_sim.files.erase(it);
			}
			else { DString * r = IN_LIB(mmd_d_string_convert_to_data(d, ext, fmt, lang, dir)); if (r) { out.assign(r->str, r->currentStringLength); IN_LIB_V(d_string_free(r, true)); } }
			src_after->assign(d->str, d->currentStringLength);
			if (d->currentStringBufferSize <= d->currentStringLength) *src_after += "<capacity-corrupt>";
			IN_LIB_V(d_string_free(d, true));
		}
		return out;
	}

	Json execute(const Json & plan, bool verbose) override {
		const Json & kn = plan.at("knobs");
		mmd6_verif_dstring_start = (size_t)std::max<int64_t>(1, kn.geti("dstring_start", 1024));
		mmd6_verif_pool_objects = (size_t)std::max<int64_t>(1, kn.geti("slab_objects", 1024));
		g_sim.realloc_mode = (int)kn.geti("realloc", 0);
		simfs_reset();
		simfs_load(plan.at("world"));
		const Json & docs = plan.at("docs");
		const Json & ops = plan.at("ops");
		Slot sl[3];
		Json res = Json::object(), outs = Json::array(), viol;
		std::map<std::string, int64_t> probes;
		std::set<std::string> st;
		int64_t executed = 0;
		int depth = 0;
		bool is_cli = ops.size() == 1 && ops[(size_t)0].gets("k") == "CLI";
#ifndef DISABLE_OBJECT_POOL
		if (!is_cli) { IN_LIB_V(token_pool_init()); depth = 1; }
#endif
		bool nontrivial_state = false;
		std::string initial_key;
		for (size_t k = 0; k < ops.size() && viol.is_null(); k++) {
			const Json & op = ops[k];
			std::string kind = op.gets("k");
			int s = (int)op.geti("slot") % 3;
			Slot & S = sl[s];
			child_mark_op((int)k);
			Json o = Json::object();
			o["k"] = kind;
			std::string key = state_key(sl, depth, "");
			if (k == 0) initial_key = key;
			st.insert(key + kind);
			std::string out, src_after, src_want;
			bool produced = false;
			auto doc_of = [&](const Json & x) -> const std::string & { return docs[(size_t)x.geti("doc") % docs.size()].s; };
			if (is_conv(kind)) {
				apply_env(op);
				if (key != initial_key) nontrivial_state = true;
				if (g_obf_draws) probes["obfuscation_draws_before_op"]++;
				if (depth > 1) probes["pool_depth_gt_1"]++;
			}
			do {
			if (kind == "CONV") {
				const std::string & d = doc_of(op);
				out = conv_call(op, d, &src_after); src_want = d; produced = true;
				bool inplace_ok = ((unsigned long)op.geti("ext") & (X_PARSE_OPML | X_PARSE_ITMZ)) != 0;     // the documented in-place replacement
				if (inplace_ok && src_after != src_want) probes["op_with_opml_inplace_replacement"]++;
				if (src_after != src_want && !inplace_ok) { viol = Json::object(); viol["clause"] = "source_modified"; viol["op"] = (int64_t)k; viol["detail"] = "caller's source changed during " + kind; }
			} else if (kind == "E_CREATE") {
				if (S.e) break;
				const std::string & d = doc_of(op);
				S = Slot(); S.text = d;
				if (op.gets("with") == "dstring") { S.own = IN_LIB(d_string_new(d.c_str())); S.e = IN_LIB(mmd_engine_create_with_dstring(S.own, (unsigned long)op.geti("ext"))); }
				else S.e = IN_LIB(mmd_engine_create_with_string(d.c_str(), (unsigned long)op.geti("ext")));
			} else if (kind.compare(0, 2, "E_") == 0) {
				if (!S.e) break;
				mmd_engine * e = S.e;
				if (kind == "E_CONVERT") {
					if (S.parsed) probes["engine_reused"]++;
					char * r = IN_LIB(mmd_engine_convert(e, (short)op.geti("fmt"))); if (r) out = r; free(r); produced = true; S.parsed = S.exported = true; S.stale = false;
				} else if (kind == "E_TO_DATA") {
					if (S.parsed) probes["engine_reused"]++;
					DString * r = IN_LIB(mmd_engine_convert_to_data(e, (short)op.geti("fmt"), op.has("dir") ? op.at("dir").s.c_str() : NULL));
					if (r) { out.assign(r->str, r->currentStringLength); IN_LIB_V(d_string_free(r, true)); } produced = true; S.parsed = S.exported = true; S.stale = false;
				} else if (kind == "E_PARSE") { IN_LIB_V(mmd_engine_parse_string(e)); S.parsed = true; S.exported = false; S.stale = false; }
				else if (kind == "E_EXPORT") {
					if (!(S.parsed && !S.exported && !S.stale)) break;
					DString * d = IN_LIB(d_string_new("")); IN_LIB_V(mmd_engine_export_token_tree(d, e, (short)op.geti("fmt"))); out.assign(d->str, d->currentStringLength); IN_LIB_V(d_string_free(d, true)); produced = true; S.exported = true;
				} else if (kind == "E_PARSE_SUB") {
					size_t dl = e->dstr->currentStringLength, start = (size_t)op.geti("start"), len = (size_t)op.geti("len");
					if (start > dl) start = dl;
					if (len != (size_t)-1 && len > dl - start) len = dl - start;
					if (start) probes["parse_substring_nonzero_start"]++;
					token * t = IN_LIB(mmd_engine_parse_substring(e, start, len));
					IN_LIB_V(token_tree_free(t));
					S.parsed = S.exported = false; S.stale = false;
				} else if (kind == "E_HAS_META") { if (S.stale) break; size_t end = 0; bool h = IN_LIB(mmd_engine_has_metadata(e, &end)); o["r"] = std::to_string(h) + ":" + std::to_string(end); if (S.parsed) probes["has_metadata_on_parsed_engine"]++; }
				else if (kind == "E_KEYS") { if (S.stale) break; char * r = IN_LIB(mmd_engine_metadata_keys(e)); free(r); }
				else if (kind == "E_VALUE") { if (S.stale) break; std::string key2 = op.gets("key"); (void)IN_LIB(mmd_engine_metavalue_for_key(e, key2.c_str())); }
				else if (kind == "E_SET_TEXT") {
					const std::string & nd = doc_of(op);
					DString * d = IN_LIB(mmd_engine_d_string(e));
					// a held parse tree refers to the old text: drop it first, as a caller editing the text must
					IN_LIB_V(mmd_engine_reset(e));
					IN_LIB_V(d_string_erase(d, 0, (size_t)-1));
					IN_LIB_V(d_string_append(d, nd.c_str()));
					S.text = nd; S.parsed = S.exported = false; S.stale = false;
					probes["engine_text_replaced"]++;
				}
				else if (kind == "E_UPDATE") {
					std::string key2 = op.gets("key"), val = op.gets("value");
					IN_LIB_V(mmd_engine_update_metavalue_for_key(e, key2.c_str(), val.c_str()));
					DString * d = e->dstr;
					S.text.assign(d->str, d->currentStringLength);      // the documented edit: this is the caller's source from now on
					S.parsed = S.exported = false; S.stale = false;
					probes["engine_metadata_updated"]++;
				}
				else if (kind == "E_SET_LANG") { IN_LIB_V(mmd_engine_set_language(e, (short)op.geti("lang"))); S.lang_changed = true; }
				else if (kind == "E_RESET") { IN_LIB_V(mmd_engine_reset(e)); S.parsed = S.exported = false; S.stale = false; }
				else if (kind == "E_FREE") { IN_LIB_V(mmd_engine_free(e, S.own == nullptr)); if (S.own) IN_LIB_V(d_string_free(S.own, true)); S = Slot(); }
				if (S.e) {
					// second clause: the source the caller handed over is unchanged
					DString * d = S.e->dstr;
					bool inplace_ok = (S.e->extensions & (X_PARSE_OPML | X_PARSE_ITMZ)) != 0;
					if (inplace_ok) S.text.assign(d->str, d->currentStringLength);      // the engine's text is now the converted text (documented)
					if (std::string(d->str, d->currentStringLength) != S.text || d->currentStringBufferSize <= d->currentStringLength) {
						viol = Json::object(); viol["clause"] = "source_modified"; viol["op"] = (int64_t)k; viol["detail"] = "engine source changed during " + kind;
					}
				}
			} else if (kind == "CRITIC_ACCEPT" || kind == "CRITIC_REJECT") {
				DString * d = IN_LIB(d_string_new(doc_of(op).c_str()));
				if (kind == "CRITIC_ACCEPT") IN_LIB_V(mmd_critic_markup_accept(d)); else IN_LIB_V(mmd_critic_markup_reject(d));
				o["r"] = digest(std::string(d->str, d->currentStringLength));
				IN_LIB_V(d_string_free(d, true));
			} else if (kind == "TRANSCLUDE") {
				DString * d = IN_LIB(d_string_new((doc_of(op) + "\n{{inc.txt}}\n").c_str()));
				IN_LIB_V(mmd_transclude_source(d, "/sim/a", "/sim/a/top.txt", (short)op.geti("fmt"), NULL, NULL));
				o["r"] = digest(std::string(d->str, d->currentStringLength));
				IN_LIB_V(d_string_free(d, true));
			} else if (kind == "MANIFEST") {
				std::string t = doc_of(op) + "\n{{inc.txt}}\n";
				stack * m = IN_LIB(mmd_string_transclusion_manifest(t.c_str(), "/sim/a", "/sim/a/top.txt"));
				if (m) { for (size_t i = 0; i < m->size; i++) free(stack_peek_index(m, i)); IN_LIB_V(stack_free(m)); }
			} else if (kind == "S_KEYS") { std::string t = doc_of(op); char * r = IN_LIB(mmd_string_metadata_keys(&t[0])); free(r); }
			else if (kind == "S_VALUE") { std::string t = doc_of(op), key2 = op.gets("key"); char * r = IN_LIB(mmd_string_metavalue_for_key(&t[0], key2.c_str())); free(r); }
			else if (kind == "S_UPDATE") { std::string t = doc_of(op), key2 = op.gets("key"), val = op.gets("value"); char * r = IN_LIB(mmd_string_update_metavalue_for_key(t.c_str(), key2.c_str(), val.c_str())); free(r); }
			else if (kind == "POOL_INIT") {
#ifndef DISABLE_OBJECT_POOL
				IN_LIB_V(token_pool_init()); depth++;
#endif
			} else if (kind == "POOL_DRAIN") {
#ifndef DISABLE_OBJECT_POOL
				if (depth > 1) { IN_LIB_V(token_pool_drain()); depth--; }
#endif
			} else if (kind == "POOL_CYCLE") {
#ifndef DISABLE_OBJECT_POOL
				if (depth == 1) {
					// the trees die with the pool, so a well-behaved caller resets its engines first
					for (auto & x : sl) if (x.e) { IN_LIB_V(mmd_engine_reset(x.e)); x.parsed = x.exported = x.stale = false; }
					IN_LIB_V(token_pool_drain());
					if (op.getb("free")) IN_LIB_V(token_pool_free());
					IN_LIB_V(token_pool_init());
					probes["pool_cycled"]++;
				}
#endif
			} else if (kind == "CLI") {
				out = run_cli(op, docs);
				produced = true;
			}
			} while (0);
			if (produced) {
				o["out"] = digest(out);
				if (verbose) o["text"] = out.substr(0, 6000);
				g_log.ev("out", kind + ":" + digest(out));
			} else g_log.ev("op", kind);
			outs.push(o);
			executed++;
		}
		child_mark_op((int)ops.size());      // teardown
		for (auto & S : sl) if (S.e) { IN_LIB_V(mmd_engine_free(S.e, S.own == nullptr)); if (S.own) IN_LIB_V(d_string_free(S.own, true)); }
#ifndef DISABLE_OBJECT_POOL
		if (!is_cli) { while (depth-- > 0) IN_LIB_V(token_pool_drain()); IN_LIB_V(token_pool_free()); }
#endif
		res["violation"] = viol;
		res["ops"] = outs;
		res["ops_executed"] = executed;
		Json pj = Json::object(); for (auto & kv : probes) pj[kv.first] = kv.second; res["probes"] = pj;
		Json sj = Json::array(); for (auto & x : st) sj.push(x); res["states"] = sj;
		Json ex = Json::object(); ex["nontrivial_state"] = nontrivial_state; ex["obf_draws"] = (int64_t)g_obf_draws; res["extra"] = ex;
		return res;
	}

	// multimarkdown -b file1 file2 ... in-process; the result is the concatenation of (name, content) of every output file
	static std::string run_cli(const Json & op, const Json & docs) {
		static const char * fnames[] = {"html", "epub", "latex", "beamer", "memoir", "fodt", "odt", "bundle", "bundlezip", "opml", "itmz", "mmd", "html"};
		static const char * bext[] = {".html", ".epub", ".tex", ".tex", ".tex", ".fodt", ".odt", ".textbundle", ".textpack", ".opml", ".itmz", ".mmdtext", ".html"};
		int cfmt = (int)op.geti("fmt") % 13;
		std::vector<std::string> args = {"multimarkdown", "-b", "-t", fnames[cfmt]};
		if (op.has("flags")) for (auto & f : op.at("flags").a) args.push_back(f.s);
		const Json & fl = op.at("files");
		std::vector<std::string> paths;
		for (size_t i = 0; i < fl.size(); i++) {
			std::string path = "/sim/b/f" + std::to_string(i) + ".txt";
			SimFile f; f.versions.push_back(docs[(size_t)fl[i].num() % docs.size()].s);
			g_sim.files[path] = f;
			args.push_back(path);
			paths.push_back(path);
		}
		std::vector<char *> argv;
		for (auto & a : args) argv.push_back(&a[0]);
		argv.push_back(nullptr);
		int rc = IN_LIB(mmd_cli_main((int)args.size(), argv.data()));
		std::string out = "rc=" + std::to_string(rc) + "\n";
		for (size_t i = 0; i < paths.size(); i++) {
			std::string base = "/sim/b/f" + std::to_string(i);
			std::string of = base + bext[cfmt];
			auto it = g_sim.files.find(of);
			// one record per input file, so that a single-file reference can be compared with its slice
			out += "== " + std::to_string(i) + " " + (it == g_sim.files.end() ? std::string("<missing>") : digest(it->second.written)) + "\n";
		}
		return out;
	}

	// ------------------------------------------------------------------ reference: the same call, first in a fresh process
	// Crash attribution (DESIGN 3.5).  A crash inside (or after) an engine-slot operation may be the delayed effect of an
	// earlier operation that already broke that engine on its own - e.g. a conversion that leaves a dangling tree which only
	// the next query or the final mmd_engine_free touches.  So every operation issued to that slot so far is tried as a
	// *single use of a fresh engine* (create, set language, the operation, free) first in a fresh process; if any of them
	// fails alone, the failure is input-level memory safety (C01), not hidden history.  A failure that needs REUSE of the
	// engine (or earlier process history) survives this and is reported.
	Json isolate(const Json & plan, int k) override {
		const Json & ops = plan.at("ops");
		Json cands = Json::array();
		auto single_use = [&](int j) {
			Json r = ref_plan(plan, j);
			if (!r.is_null()) cands.push(r);
		};
		if (k >= (int)ops.size()) {
			for (int j = 0; j < (int)ops.size(); j++) { std::string kk = ops[(size_t)j].gets("k"); if (kk.compare(0, 2, "E_") == 0 && kk != "E_CREATE" && kk != "E_FREE") single_use(j); }
		} else {
			const Json & op = ops[(size_t)k];
			std::string kind = op.gets("k");
			if (kind == "CLI") return Json();
			if (kind.compare(0, 2, "E_") == 0 && kind != "E_CREATE") {
				int s = (int)op.geti("slot") % 3;
				for (int j = 0; j <= k; j++) { const Json & q = ops[(size_t)j]; std::string kk = q.gets("k"); if (kk.compare(0, 2, "E_") == 0 && kk != "E_CREATE" && kk != "E_FREE" && (int)q.geti("slot") % 3 == s) single_use(j); }
			} else single_use(k);
		}
		if (cands.size() == 0) return Json();
		Json r = Json::object(); r["any_of"] = cands;
		return r;
	}
	// Reference for the output oracle: the same call (same engine creation arguments, current text, language) made first in a fresh process
	Json ref_plan(const Json & plan, int k) {
		const Json & ops = plan.at("ops");
		const Json & op = ops[(size_t)k];
		std::string kind = op.gets("k");
		Json p = Json::object();
		p["engine"] = "hist"; p["knobs"] = plan.at("knobs"); p["world"] = plan.at("world");
		Json nops = Json::array();
		Json docs = Json::array();
		auto use_doc = [&](const Json & o) { Json c = o; docs.push(plan.at("docs")[(size_t)o.geti("doc") % plan.at("docs").size()]); c["doc"] = (int64_t)docs.size() - 1; return c; };
		if (kind == "CLI") return Json();
		if (kind.compare(0, 2, "E_") == 0 && kind != "E_CREATE") {
			int s = (int)op.geti("slot") % 3;
			int create = -1;
			for (int j = k - 1; j >= 0; j--) {
				const Json & q = ops[(size_t)j];
				if ((int)q.geti("slot") % 3 != s) continue;
				if (q.gets("k") == "E_FREE") break;
				if (q.gets("k") == "E_CREATE") { create = j; break; }
			}
			if (create < 0) return Json();
			Json cr = ops[(size_t)create];
			std::vector<Json> edits;      // in-place metadata updates since the text was last set: part of what "the source" is at operation k
			for (int j = create + 1; j < k; j++) {
				const Json & q = ops[(size_t)j];
				if ((int)q.geti("slot") % 3 != s) continue;
				if (q.gets("k") == "E_SET_TEXT") { cr["doc"] = q.at("doc"); edits.clear(); }
				else if (q.gets("k") == "E_UPDATE") edits.push_back(q);
			}
			nops.push(use_doc(cr));
			for (auto & ed : edits) nops.push(ed);
			Json lang;
			for (int j = create + 1; j < k; j++) { const Json & q = ops[(size_t)j]; if ((int)q.geti("slot") % 3 == s && q.gets("k") == "E_SET_LANG") lang = q; }
			if (!lang.is_null()) nops.push(lang);
			if (kind == "E_EXPORT") { Json pr = Json::object(); pr["k"] = "E_PARSE"; pr["slot"] = s; nops.push(pr); }
			nops.push(op);
		} else if (op.has("doc")) nops.push(use_doc(op));
		else nops.push(op);
		p["docs"] = docs;
		p["ops"] = nops;
		return p;
	}

	Json judge(const Json & plan, const ChildOutcome & out, Ctx & ctx) override {
		if (out.status != "finished") return Json();
		if (!out.result.at("violation").is_null()) return out.result.at("violation");
		const Json & ops = plan.at("ops");
		const Json & outs = out.result.at("ops");
		if (ops.size() == 1 && ops[(size_t)0].gets("k") == "CLI") return judge_cli(plan, out, ctx);
		for (size_t k = 0; k < ops.size() && k < outs.size(); k++) {
			std::string kind = ops[k].gets("k");
			if (!is_conv(kind) || !outs[k].has("out")) continue;
			Json iso = ref_plan(plan, (int)k);
			if (iso.is_null()) continue;
			ChildOutcome r = ctx.run_ref(iso);
			if (r.status != "finished") continue;      // input-level failure of the reference: not this property's business
			const Json & ro = r.result.at("ops");
			std::string want = ro[ro.size() - 1].gets("out");
			if (want != outs[k].gets("out")) {
				Json v = Json::object();
				v["clause"] = "output_depends_on_history"; v["class"] = kind; v["op"] = (int64_t)k;
				v["detail"] = "in this history: " + outs[k].gets("out") + ", as the first call of a fresh process: " + want;
				return v;
			}
		}
		return Json();
	}

	Json judge_cli(const Json & plan, const ChildOutcome & out, Ctx & ctx) {
		// each file of the batch must come out as if it had been the only file of a fresh process
		const Json & op = plan.at("ops")[(size_t)0];
		ChildOutcome full = out.result.at("ops")[(size_t)0].has("text") ? out : ctx.run_child(plan, true);
		if (full.status != "finished") return Json();
		std::string all = full.result.at("ops")[(size_t)0].gets("text");
		const Json & fl = op.at("files");
		auto slice = [](const std::string & t, size_t idx) { std::string tag = "== " + std::to_string(idx) + " "; size_t a = t.find(tag); if (a == std::string::npos) return std::string("<none>"); a += tag.size(); size_t b = t.find('\n', a); return t.substr(a, b - a); };
		for (size_t i = 0; i < fl.size(); i++) {
			Json p = plan;
			Json one = op; Json f1 = Json::array(); f1.push(fl[i]); one["files"] = f1;
			Json ops = Json::array(); ops.push(one); p["ops"] = ops;
			ChildOutcome r = ctx.run_child(p, true);
			if (r.status != "finished") continue;
			std::string got = slice(all, i), want = slice(r.result.at("ops")[(size_t)0].gets("text"), 0);
			if (got != want) {
				Json v = Json::object();
				v["clause"] = "output_depends_on_history"; v["class"] = "CLI"; v["op"] = 0;
				v["detail"] = "batch file #" + std::to_string(i) + " gives " + got + ", the same file converted alone in a fresh process gives " + want;
				return v;
			}
		}
		return Json();
	}

	bool nontrivial(const Json & plan, const Json & result) override {
		return plan.at("ops").size() >= 2 && result.at("extra").getb("nontrivial_state");
	}

	std::vector<Json> simplify(const Json & plan) override {
		std::vector<Json> c;
		const Json & kn = plan.at("knobs");
		if (kn.geti("realloc")) { Json p = plan; p["knobs"]["realloc"] = 0; c.push_back(p); }
		if (kn.geti("malloc_fill")) { Json p = plan; p["knobs"]["malloc_fill"] = 0; c.push_back(p); }
		if (kn.geti("dstring_start") != 1024) { Json p = plan; p["knobs"]["dstring_start"] = 1024; c.push_back(p); }
		if (kn.geti("slab_objects") != 1024) { Json p = plan; p["knobs"]["slab_objects"] = 1024; c.push_back(p); }
		const Json & docs = plan.at("docs");
		for (size_t d = 0; d < docs.size(); d++) {
			const std::string & s = docs[d].s;
			if (s.size() < 2) continue;
			size_t mid = s.find('\n', s.size() / 2);
			if (mid == std::string::npos || mid + 1 >= s.size()) mid = s.size() / 2;
			Json p = plan; p["docs"][d] = s.substr(0, mid + 1); c.push_back(p);
			Json q = plan; q["docs"][d] = s.substr(mid + 1); c.push_back(q);
		}
		const Json & ops = plan.at("ops");
		for (size_t k = 0; k < ops.size(); k++) {
			const Json & o = ops[k];
			if (o.has("ext") && o.geti("ext") != 0) {
				Json p = plan; p["ops"][k]["ext"] = 0; c.push_back(p);
				for (int b = 0; b < 17; b++) if (o.geti("ext") & (1 << b)) { Json q = plan; q["ops"][k]["ext"] = o.geti("ext") & ~(int64_t)(1 << b); c.push_back(q); }
			}
			if (o.has("fmt") && o.geti("fmt") != 0) { Json p = plan; p["ops"][k]["fmt"] = 0; c.push_back(p); }
			if (o.has("lang") && o.geti("lang") != 0) { Json p = plan; p["ops"][k]["lang"] = 0; c.push_back(p); }
			if (o.has("dir")) { Json p = plan; p["ops"][k].erase("dir"); c.push_back(p); }
			if (o.gets("k") == "CLI" && o.at("files").size() > 2) { Json p = plan; p["ops"][k]["files"].a.pop_back(); c.push_back(p); }
		}
		return c;
	}
	Json sample(const Json & plan) override {
		Json s = Json::object();
		s["knobs"] = plan.at("knobs");
		Json ops = Json::array();
		for (auto & o : plan.at("ops").a) {
			std::string t = o.gets("k");
			if (o.has("slot")) t += "(" + std::to_string(o.geti("slot")) + ")";
			if (o.has("doc")) t += "[doc" + std::to_string(o.geti("doc")) + "]";
			if (o.has("fmt")) t += " fmt=" + std::to_string(o.geti("fmt"));
			if (o.has("ext")) t += " ext=" + std::to_string(o.geti("ext"));
			ops.push(t);
		}
		s["ops"] = ops;
		Json dl = Json::array(); for (auto & d : plan.at("docs").a) dl.push((int64_t)d.s.size()); s["doc_bytes"] = dl;
		return s;
	}
};
EngineReg reg(new HistEngine());
}
#endif
