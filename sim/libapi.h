// The library's own headers, for the harness.  Real code, nothing stubbed.
#pragma once
extern "C" {
#include "libMultiMarkdown.h"
#include "d_string.h"
#include "stack.h"
#include "token.h"
#include "mmd.h"
#include "file.h"
#include "transclude.h"
#ifndef DISABLE_OBJECT_POOL
	void token_pool_init(void);
	void token_pool_drain(void);
	void token_pool_free(void);
#endif
	int mmd_cli_main(int argc, char ** argv);
}
#include <string>
#include "core.h"

static inline void apply_env(const Json & op) {
	const Json & e = op.at("env");
	if (e.is_obj()) {
		if (e.has("clock")) g_sim.clock_now = e.geti("clock");
		g_sim.clock_step = e.geti("clock_step", 0);
		if (e.has("rand")) g_sim.rand_state = (uint64_t)e.geti("rand");
	}
}
static inline Json gen_env(Rng & r) {
	Json e = Json::object();
	// anywhere in [1980-01-01, 2107-12-31): the range both localtime and the DOS date field define
	e["clock"] = r.chance(1, 6) ? r.range(315532800, 946684800) : r.chance(1, 6) ? r.range(2000000000, 4354819199LL) : r.range(946684800, 2000000000);
	if (r.chance(1, 5)) e["clock_step"] = r.range(-100000, 100000);
	e["rand"] = (int64_t)(r.next() >> 2);
	return e;
}

struct PoolBracket {      // README protocol around a conversion when the pool is compiled in
	PoolBracket() {
#ifndef DISABLE_OBJECT_POOL
		LibScope l; token_pool_init();
#endif
	}
	~PoolBracket() {
#ifndef DISABLE_OBJECT_POOL
		LibScope l; token_pool_drain();
#endif
	}
};
