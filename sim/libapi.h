// The library's own headers, for the harness.  Real code, nothing stubbed.
#pragma once
extern "C" {
#include "libMultiMarkdown.h"
#include "d_string.h"
#include "stack.h"
#include "token.h"
#include "mmd.h"
#include "file.h"
#include "transclude.h"
#ifndef DISABLE_OBJECT_POOL
	void token_pool_init(void);
	void token_pool_drain(void);
	void token_pool_free(void);
#endif
	int mmd_cli_main(int argc, char ** argv);
}
#include <errno.h>
#include <string>
#include "core.h"

static inline void apply_env(const Json & op) {
	const Json & e = op.at("env");
	if (e.is_obj()) {
		if (e.has("clock")) { g_sim.clock_now = e.geti("clock"); g_sim.clock_start = g_sim.clock_now; }
		g_sim.clock_step = e.geti("clock_step", 0);
		if (e.has("rand")) g_sim.rand_state = (uint64_t)e.geti("rand");
		// what an earlier, unrelated call left in errno (the operation's thread is the one that calls apply_env); a reference starts with errno == 0
		errno = (int)e.geti("errno", 0);
		if (errno) g_sim.fired["stale_errno"]++;
	}
}
static inline Json gen_env(Rng & r) {
	Json e = Json::object();
	// anywhere in [1980-01-01, 2107-12-31): the range both localtime and the DOS date field define
	e["clock"] = r.chance(1, 6) ? r.range(315532800, 946684800) : r.chance(1, 6) ? r.range(2000000000, 4354819199LL) : r.range(946684800, 2000000000);
	if (r.chance(1, 4)) {
		// calendar boundaries: the DOS epoch, leap days, year ends, the 32-bit time_t limit, the last DOS date - each +- up to a day
		static const int64_t special[] = {
			315532800LL /*1980-01-01*/, 315619199LL, 951782400LL /*2000-02-29*/, 1078012800LL /*2004-02-29*/, 1709164800LL /*2024-02-29*/, 1835395200LL /*2028-02-29*/,
			946684799LL /*1999-12-31 23:59:59*/, 946684800LL, 1735689599LL /*2024-12-31*/, 2147483647LL /*2038-01-19*/, 2147483648LL, 4102444800LL /*2100-01-01*/,
			4107542400LL /*2100-03-01: 2100 is not a leap year*/, 4354819199LL /*2107-12-31 23:59:59*/, 1582934400LL /*2020-02-29*/, 1709251199LL /*2024-02-29 23:59:59*/ };
		e["clock"] = special[r.below(sizeof(special) / sizeof(special[0]))] + (r.chance(1, 2) ? 0 : r.range(-86400, 86400));
		if ((int64_t)e.geti("clock") < 315532800LL) e["clock"] = 315532800LL;
		if ((int64_t)e.geti("clock") > 4354819199LL) e["clock"] = 4354819199LL;
	}
	if (r.chance(1, 10)) {
		// a machine whose clock was never set, the last second before the DOS epoch, the first one after the last DOS date, a far future
		static const int64_t outside[] = {0LL, 1LL, 99999999LL /*1973*/, 315532799LL /*1979-12-31 23:59:59*/, 4354819200LL /*2108-01-01*/, 4420000000LL /*2110*/};
		e["clock"] = outside[r.below(6)];
	}
	if (r.chance(1, 5)) e["clock_step"] = r.range(-100000, 100000);
	if (r.chance(1, 4)) { static const int errs[] = {ERANGE, EINTR, ENOENT, EAGAIN, EDOM, EINVAL}; e["errno"] = errs[r.below(6)]; }      // hidden state outside the library: libc's errno
	e["rand"] = (int64_t)(r.next() >> 2);
	return e;
}

struct PoolBracket {      // README protocol around a conversion when the pool is compiled in
	PoolBracket() {
#ifndef DISABLE_OBJECT_POOL
		LibScope l; token_pool_init();
#endif
	}
	~PoolBracket() {
#ifndef DISABLE_OBJECT_POOL
		LibScope l; token_pool_drain();
#endif
	}
};
