// Minimal JSON value for plans, results and replay files.
// Strings are *byte strings*: every byte is serialised as the code point of the same
// value (latin-1), bytes outside printable ASCII as \u00XX.  Python reads them back with
// s.encode('latin-1').  This keeps ASCII documents readable in evidence and replay files
// while still carrying NULs and invalid UTF-8 exactly.
#pragma once
#include <cstdint>
#include <cstdio>
#include <cstdlib>
#include <cstring>
#include <map>
#include <string>
#include <utility>
#include <vector>

class Json {
public:
	enum Type { NUL, BOOL, INT, STR, ARR, OBJ };
	Type t = NUL;
	bool b = false;
	int64_t i = 0;
	std::string s;
	std::vector<Json> a;
	std::vector<std::pair<std::string, Json>> o;   // insertion-ordered

	Json() {}
	Json(bool v) : t(BOOL), b(v) {}
	Json(int v) : t(INT), i(v) {}
	Json(long v) : t(INT), i(v) {}
	Json(long long v) : t(INT), i(v) {}
	Json(unsigned v) : t(INT), i(v) {}
	Json(unsigned long v) : t(INT), i((int64_t)v) {}
	Json(unsigned long long v) : t(INT), i((int64_t)v) {}
	Json(const char * v) : t(STR), s(v) {}
	Json(const std::string & v) : t(STR), s(v) {}
	static Json array() { Json j; j.t = ARR; return j; }
	static Json object() { Json j; j.t = OBJ; return j; }

	bool is_null() const { return t == NUL; }
	bool is_obj() const { return t == OBJ; }
	bool is_arr() const { return t == ARR; }
	bool is_str() const { return t == STR; }
	bool is_int() const { return t == INT; }

	// object access
	Json & operator[](const std::string & k) {
		if (t == NUL) t = OBJ;
		for (auto & kv : o) if (kv.first == k) return kv.second;
		o.emplace_back(k, Json());
		return o.back().second;
	}
	const Json & at(const std::string & k) const {
		static const Json nul;
		for (auto & kv : o) if (kv.first == k) return kv.second;
		return nul;
	}
	bool has(const std::string & k) const {
		for (auto & kv : o) if (kv.first == k) return true;
		return false;
	}
	void erase(const std::string & k) {
		for (size_t n = 0; n < o.size(); n++) if (o[n].first == k) { o.erase(o.begin() + n); return; }
	}
	// array access
	Json & operator[](size_t n) { return a[n]; }
	const Json & operator[](size_t n) const { return a[n]; }
	size_t size() const { return t == ARR ? a.size() : t == OBJ ? o.size() : t == STR ? s.size() : 0; }
	void push(const Json & v) { if (t == NUL) t = ARR; a.push_back(v); }

	int64_t num(int64_t d = 0) const { return t == INT ? i : t == BOOL ? (b ? 1 : 0) : d; }
	uint64_t unum(uint64_t d = 0) const { return t == INT ? (uint64_t)i : d; }
	bool truthy() const { return t == BOOL ? b : t == INT ? i != 0 : t == NUL ? false : true; }
	const std::string & str() const { return s; }
	int64_t geti(const std::string & k, int64_t d = 0) const { const Json & v = at(k); return v.t == INT ? v.i : v.t == BOOL ? (int64_t)v.b : d; }
	std::string gets(const std::string & k, const std::string & d = "") const { const Json & v = at(k); return v.t == STR ? v.s : d; }
	bool getb(const std::string & k, bool d = false) const { const Json & v = at(k); return v.t == NUL ? d : v.truthy(); }

	bool operator==(const Json & r) const {
		if (t != r.t) return false;
		switch (t) {
			case NUL: return true;
			case BOOL: return b == r.b;
			case INT: return i == r.i;
			case STR: return s == r.s;
			case ARR: return a == r.a;
			case OBJ: return o == r.o;
		}
		return false;
	}
	bool operator!=(const Json & r) const { return !(*this == r); }

	static void esc(std::string & out, const std::string & s) {
		out.push_back('"');
		char buf[8];
		for (unsigned char c : s) {
			if (c == '"') out += "\\\"";
			else if (c == '\\') out += "\\\\";
			else if (c == '\n') out += "\\n";
			else if (c == '\t') out += "\\t";
			else if (c < 0x20 || c >= 0x7f) { snprintf(buf, sizeof buf, "\\u%04x", c); out += buf; }
			else out.push_back((char)c);
		}
		out.push_back('"');
	}
	void dump_to(std::string & out) const {
		switch (t) {
			case NUL: out += "null"; break;
			case BOOL: out += b ? "true" : "false"; break;
			case INT: out += std::to_string(i); break;
			case STR: esc(out, s); break;
			case ARR:
				out.push_back('[');
				for (size_t n = 0; n < a.size(); n++) { if (n) out.push_back(','); a[n].dump_to(out); }
				out.push_back(']');
				break;
			case OBJ:
				out.push_back('{');
				for (size_t n = 0; n < o.size(); n++) {
					if (n) out.push_back(',');
					esc(out, o[n].first); out.push_back(':'); o[n].second.dump_to(out);
				}
				out.push_back('}');
				break;
		}
	}
	std::string dump() const { std::string r; dump_to(r); return r; }

	// ---- parser ----
	static bool parse(const std::string & txt, Json & out) {
		size_t p = 0;
		if (!pv(txt, p, out)) return false;
		ws(txt, p);
		return p == txt.size();
	}
private:
	static void ws(const std::string & s, size_t & p) { while (p < s.size() && (s[p] == ' ' || s[p] == '\n' || s[p] == '\t' || s[p] == '\r')) p++; }
	static bool pstr(const std::string & s, size_t & p, std::string & out) {
		if (p >= s.size() || s[p] != '"') return false;
		p++;
		out.clear();
		while (p < s.size() && s[p] != '"') {
			char c = s[p++];
			if (c == '\\') {
				if (p >= s.size()) return false;
				char e = s[p++];
				switch (e) {
					case 'n': out.push_back('\n'); break;
					case 't': out.push_back('\t'); break;
					case 'r': out.push_back('\r'); break;
					case 'b': out.push_back('\b'); break;
					case 'f': out.push_back('\f'); break;
					case '/': out.push_back('/'); break;
					case '\\': out.push_back('\\'); break;
					case '"': out.push_back('"'); break;
					case 'u': {
						if (p + 4 > s.size()) return false;
						unsigned v = (unsigned)strtoul(s.substr(p, 4).c_str(), nullptr, 16);
						p += 4;
						if (v < 256) out.push_back((char)v);
						else if (v < 0x800) { out.push_back((char)(0xC0 | (v >> 6))); out.push_back((char)(0x80 | (v & 0x3f))); }
						else { out.push_back((char)(0xE0 | (v >> 12))); out.push_back((char)(0x80 | ((v >> 6) & 0x3f))); out.push_back((char)(0x80 | (v & 0x3f))); }
						break;
					}
					default: return false;
				}
			} else out.push_back(c);
		}
		if (p >= s.size()) return false;
		p++;
		return true;
	}
	static bool pv(const std::string & s, size_t & p, Json & out) {
		ws(s, p);
		if (p >= s.size()) return false;
		char c = s[p];
		if (c == '{') {
			out = Json::object(); p++; ws(s, p);
			if (p < s.size() && s[p] == '}') { p++; return true; }
			for (;;) {
				ws(s, p);
				std::string k;
				if (!pstr(s, p, k)) return false;
				ws(s, p);
				if (p >= s.size() || s[p] != ':') return false;
				p++;
				Json v;
				if (!pv(s, p, v)) return false;
				out.o.emplace_back(k, std::move(v));
				ws(s, p);
				if (p < s.size() && s[p] == ',') { p++; continue; }
				if (p < s.size() && s[p] == '}') { p++; return true; }
				return false;
			}
		}
		if (c == '[') {
			out = Json::array(); p++; ws(s, p);
			if (p < s.size() && s[p] == ']') { p++; return true; }
			for (;;) {
				Json v;
				if (!pv(s, p, v)) return false;
				out.a.push_back(std::move(v));
				ws(s, p);
				if (p < s.size() && s[p] == ',') { p++; continue; }
				if (p < s.size() && s[p] == ']') { p++; return true; }
				return false;
			}
		}
		if (c == '"') { out.t = STR; return pstr(s, p, out.s); }
		if (!s.compare(p, 4, "true")) { out = Json(true); p += 4; return true; }
		if (!s.compare(p, 5, "false")) { out = Json(false); p += 5; return true; }
		if (!s.compare(p, 4, "null")) { out = Json(); p += 4; return true; }
		size_t q = p;
		if (q < s.size() && (s[q] == '-' || s[q] == '+')) q++;
		while (q < s.size() && (isdigit((unsigned char)s[q]) || s[q] == '.' || s[q] == 'e' || s[q] == 'E' || s[q] == '-' || s[q] == '+')) q++;
		if (q == p) return false;
		std::string numtxt = s.substr(p, q - p);
		if (numtxt.find_first_of(".eE") != std::string::npos) out = Json((long long)strtod(numtxt.c_str(), nullptr));
		else out = Json((long long)strtoll(numtxt.c_str(), nullptr, 10));
		p = q;
		return true;
	}
};
