// Simulated in-memory file system behind fopen() (fopencookie streams), shared by all variants.
#pragma once
#include <stdio.h>
#include <string>

bool simfs_is_sim_path(const char * path);           // absolute under /sim, or relative while cwd is under /sim
FILE * simfs_fopen(const char * path, const char * mode);
char * simfs_realpath(const char * path, char * resolved);
int simfs_mkdir(const char * path);
int simfs_chdir(const char * path);
bool simfs_exists(const std::string & norm, bool * is_dir);
extern long simfs_read_chunk;                        // max bytes handed to stdio per cookie read (0 = unlimited)
