#ifndef _GNU_SOURCE
#define _GNU_SOURCE
#endif
#include <errno.h>
#include <limits.h>
#include <stdio.h>
#include <stdlib.h>
#include <string.h>
#include <unistd.h>
#include "core.h"
#include "simfs.h"

long simfs_read_chunk = 0;

// POSIX path semantics that matter to this code: "." / ".." / "//" normalisation,
// PATH_MAX = 4096 and NAME_MAX = 255 (both reproduced faithfully: the unchanged tree's only
// brake in one family of include cycles is ENAMETOOLONG).
std::string simfs_normalize(const std::string & path, bool * too_long) {
	if (too_long) *too_long = false;
	if (too_long && path.size() >= PATH_MAX) *too_long = true;
	std::string full = path;
	if (full.empty() || full[0] != '/') full = g_sim.cwd + "/" + full;
	std::vector<std::string> parts;
	size_t i = 0;
	while (i < full.size()) {
		while (i < full.size() && full[i] == '/') i++;
		size_t j = i;
		while (j < full.size() && full[j] != '/') j++;
		if (j > i) {
			std::string c = full.substr(i, j - i);
			if (too_long && c.size() > 255) *too_long = true;
			if (c == ".") {}
			else if (c == "..") { if (!parts.empty()) parts.pop_back(); }
			else parts.push_back(c);
		}
		i = j;
	}
	std::string r;
	for (auto & p : parts) { r += "/"; r += p; }
	if (r.empty()) r = "/";
	return r;
}

bool simfs_is_sim_path(const char * path) {
	if (path[0] == '/') return strncmp(path, "/sim", 4) == 0 && (path[4] == '/' || path[4] == 0);
	return g_sim.cwd.compare(0, 4, "/sim") == 0;
}

bool simfs_exists(const std::string & norm, bool * is_dir) {
	auto it = g_sim.files.find(norm);
	if (it != g_sim.files.end()) { if (is_dir) *is_dir = it->second.is_dir; return true; }
	// implicit directories: any file below it
	std::string pre = norm == "/" ? "/" : norm + "/";
	auto lb = g_sim.files.lower_bound(pre);
	if (lb != g_sim.files.end() && lb->first.compare(0, pre.size(), pre) == 0) { if (is_dir) *is_dir = true; return true; }
	if (norm == "/sim") { if (is_dir) *is_dir = true; return true; }
	return false;
}

// every path component but the last must be an existing directory (a regular file there is ENOTDIR)
static int check_parents(const std::string & norm) {
	size_t pos = 1;
	while ((pos = norm.find('/', pos)) != std::string::npos) {
		std::string dir = norm.substr(0, pos);
		bool isd = false;
		if (!simfs_exists(dir, &isd)) return ENOENT;
		if (!isd) return ENOTDIR;
		pos++;
	}
	return 0;
}

struct Cookie {
	std::string data;        // what will be delivered
	size_t pos = 0;
	long fail_after = -1;    // deliver this many bytes, then fail persistently
	int fail_errno = EIO;
	bool writing = false;
	std::string path;        // normalised
	size_t log_index = 0;    // index into g_sim.open_log
};

static ssize_t ck_read(void * c, char * buf, size_t n) {
	Cookie * k = (Cookie *)c;
	size_t limit = k->data.size();
	if (k->fail_after >= 0 && (size_t)k->fail_after < limit) limit = (size_t)k->fail_after;
	if (k->pos >= limit) {
		if (k->fail_after >= 0) {
			errno = k->fail_errno;
			g_sim.fired[k->fail_errno == EISDIR ? "directory_in_place_of_file" : "read_error"]++;
			g_sim.open_log[k->log_index].complete = false;
			return -1;
		}
		g_sim.open_log[k->log_index].complete = true;
		return 0;
	}
	size_t m = limit - k->pos;
	if (m > n) m = n;
	if (simfs_read_chunk > 0 && m > (size_t)simfs_read_chunk) m = (size_t)simfs_read_chunk;
	memcpy(buf, k->data.data() + k->pos, m);
	g_sim.open_log[k->log_index].delivered.append(k->data, k->pos, m);
	k->pos += m;
	g_sim.bytes_delivered += m;
	return (ssize_t)m;
}
static ssize_t ck_write(void * c, const char * buf, size_t n) {
	Cookie * k = (Cookie *)c;
	k->data.append(buf, n);
	return (ssize_t)n;
}
// seeking is legal on a regular file (a change may start to use ftell/fseek to size a file before reading it); it never fails by itself
static int ck_seek(void * c, off64_t * offset, int whence) {
	Cookie * k = (Cookie *)c;
	if (k->writing) return -1;
	int64_t base = whence == SEEK_SET ? 0 : whence == SEEK_CUR ? (int64_t)k->pos : (int64_t)k->data.size();
	int64_t np = base + (int64_t)*offset;
	if (np < 0) { errno = EINVAL; return -1; }
	k->pos = (size_t)np;
	*offset = (off64_t)np;
	return 0;
}
static int ck_close(void * c) {
	Cookie * k = (Cookie *)c;
	if (!k->writing) g_sim.open_read_streams--;
	if (k->writing) {
		SimFile & f = g_sim.files[k->path];
		f.written = k->data;
		f.versions.assign(1, k->data);
		g_log.ev("fwrite_close", k->path + ":" + digest(k->data));
	}
	delete k;
	return 0;
}

static void stepcap_exit(const char * what) {
	char buf[96];
	int n = snprintf(buf, sizeof buf, "STEPCAP %s\n", what);
	if (write(3, buf, n)) {}
	_exit(EXIT_STEPCAP);
}

FILE * simfs_fopen(const char * path, const char * mode) {
	int saved = g_sim.in_lib;
	g_sim.in_lib = 0;          // allocations below belong to the harness
	struct Restore { int s; ~Restore() { g_sim.in_lib = s; } } restore{saved};

	g_sim.fopen_calls++;
	if (g_sim.fopen_cap && g_sim.fopen_calls > g_sim.fopen_cap) stepcap_exit("fopen");
	if (g_sim.bytes_cap && g_sim.bytes_delivered > g_sim.bytes_cap) stepcap_exit("bytes");

	bool too_long = false;
	std::string norm = simfs_normalize(path, &too_long);
	bool writing = mode[0] == 'w' || mode[0] == 'a';
	OpenRecord rec;
	rec.path = norm; rec.nth = 0; rec.ok = false; rec.err = 0; rec.complete = false; rec.writing = writing;

	auto fail = [&](int e, const char * kind) -> FILE * {
		rec.err = e;
		g_sim.open_log.push_back(rec);
		if (kind) g_sim.fired[kind]++;
		g_log.ev("fopen_fail", norm + ":" + std::to_string(e));
		errno = e;
		return (FILE *)NULL;
	};
	if (too_long) return fail(ENAMETOOLONG, "enametoolong");
	int pe = check_parents(norm);
	if (pe) return fail(pe, NULL);

	if (writing) {
		bool isd = false;
		if (simfs_exists(norm, &isd) && isd) return fail(EISDIR, NULL);
		Cookie * k = new Cookie();
		k->writing = true; k->path = norm;
		if (mode[0] == 'a') { auto it = g_sim.files.find(norm); if (it != g_sim.files.end() && !it->second.versions.empty()) k->data = it->second.versions.back(); }
		rec.ok = true; rec.writing = true;
		g_sim.open_log.push_back(rec);
		k->log_index = g_sim.open_log.size() - 1;
		cookie_io_functions_t io = { NULL, ck_write, NULL, ck_close };
		g_log.ev("fopen_w", norm);
		return fopencookie(k, mode, io);
	}

	bool isd = false;
	bool exists = simfs_exists(norm, &isd);
	auto it = g_sim.files.find(norm);
	int nth = 0;
	if (it != g_sim.files.end()) nth = ++it->second.opens;
	rec.nth = nth;
	if (it != g_sim.files.end()) {
		for (auto & f : it->second.faults) {
			if (f.kind == "open_fail" && (f.nth == 0 || f.nth == nth)) return fail(f.err ? f.err : EACCES, "open_fail");
		}
	}
	if (!exists) return fail(ENOENT, NULL);

	Cookie * k = new Cookie();
	k->path = norm;
	if (isd) {
		// fopen(dir, "r") succeeds on Linux; the first read fails with EISDIR
		k->fail_after = 0; k->fail_errno = EISDIR;
	} else {
		SimFile & sf = it->second;
		size_t v = sf.versions.empty() ? 0 : (size_t)(nth - 1) < sf.versions.size() ? (size_t)(nth - 1) : sf.versions.size() - 1;
		if (!sf.versions.empty()) k->data = sf.versions[v];
		if (v > 0) g_sim.fired["file_changed_between_opens"]++;
		if (k->data.empty()) g_sim.fired["empty_file"]++;
		for (auto & f : sf.faults) {
			if (f.kind == "read_error" && (f.nth == 0 || f.nth == nth)) { k->fail_after = f.k < 0 ? 0 : f.k; k->fail_errno = f.err ? f.err : EIO; }
		}
	}
	rec.ok = true;
	g_sim.open_log.push_back(rec);
	k->log_index = g_sim.open_log.size() - 1;
	cookie_io_functions_t io = { ck_read, NULL, ck_seek, ck_close };
	g_sim.open_read_streams++;
	g_log.ev("fopen_r", norm + "#" + std::to_string(nth));
	return fopencookie(k, "r", io);
}

char * simfs_realpath(const char * path, char * resolved) {
	bool too_long = false;
	std::string norm = simfs_normalize(path, &too_long);
	if (too_long) { errno = ENAMETOOLONG; return NULL; }
	if (!simfs_exists(norm, NULL)) {
		errno = ENOENT;
		// glibc leaves the path resolved so far in the buffer; keep the buffer a valid string
		if (resolved) { strncpy(resolved, norm.c_str(), PATH_MAX - 1); resolved[PATH_MAX - 1] = 0; }
		return NULL;
	}
	if (!resolved) return strdup(norm.c_str());
	strncpy(resolved, norm.c_str(), PATH_MAX - 1);
	resolved[PATH_MAX - 1] = 0;
	return resolved;
}

int simfs_mkdir(const char * path) {
	std::string norm = simfs_normalize(path);
	if (simfs_exists(norm, NULL)) { errno = EEXIST; return -1; }
	g_sim.files[norm].is_dir = true;
	return 0;
}
int simfs_chdir(const char * path) {
	std::string norm = simfs_normalize(path);
	bool isd = false;
	if (!simfs_exists(norm, &isd) || !isd) { errno = ENOENT; return -1; }
	g_sim.cwd = norm;
	return 0;
}

void simfs_reset() { g_sim.files.clear(); g_sim.open_log.clear(); g_sim.cwd = "/sim"; }

void simfs_load(const Json & world) {
	const Json & files = world.at("files");
	for (auto & kv : files.o) {
		SimFile f;
		const Json & d = kv.second;
		f.is_dir = d.getb("dir");
		for (auto & v : d.at("versions").a) f.versions.push_back(v.s);
		for (auto & fj : d.at("faults").a) {
			SimFault sf;
			sf.kind = fj.gets("kind"); sf.nth = (int)fj.geti("nth"); sf.err = (int)fj.geti("errno"); sf.k = (long)fj.geti("k");
			f.faults.push_back(sf);
		}
		g_sim.files[simfs_normalize(kv.first)] = f;
	}
}
