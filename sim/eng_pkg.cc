// Engine `pkg` (C09): package outputs as a function of the environment - asset files read through
// the simulated file system (present / missing / unreadable / short read / empty / directory /
// changing), the simulated clock (OPF date, every member's zip time stamp) and the libc PRNG
// (publication id, one uuid per asset, library-side srand for random footnote anchors).
// The archive oracle is an independent implementation (tools/pkgcheck.py: Python zipfile + expat).
#if defined(VARIANT_A) || defined(VARIANT_B)
#include <errno.h>
#include <signal.h>
#include <unistd.h>
#include "libapi.h"
#include "docgen.h"
#include "simfs.h"

namespace {

struct PyOracle {
	pid_t pid = 0; int to = -1, from = -1;
	std::string buf;
	bool start() {
		if (pid) return true;
		int a[2], b[2];
		if (pipe(a) || pipe(b)) return false;
		pid = fork();
		if (pid == 0) {
			dup2(a[0], 0); dup2(b[1], 1);
			close(a[0]); close(a[1]); close(b[0]); close(b[1]);
			const char * root = getenv("MMDSIM_VERIF");
			std::string script = std::string(root ? root : "/verif") + "/tools/pkgcheck.py";
			execlp("python3", "python3", script.c_str(), (char *)NULL);
			_exit(127);
		}
		close(a[0]); close(b[1]);
		to = a[1]; from = b[0];
		return true;
	}
	Json ask(const Json & req) {
		Json bad = Json::object();
		if (!start()) { bad["harness"] = "cannot start pkgcheck.py"; return bad; }
		std::string line = req.dump() + "\n";
		size_t off = 0;
		while (off < line.size()) { ssize_t w = write(to, line.data() + off, line.size() - off); if (w <= 0) { bad["harness"] = "pkgcheck.py pipe closed"; return bad; } off += (size_t)w; }
		for (;;) {
			size_t nl = buf.find('\n');
			if (nl != std::string::npos) { Json r; std::string l = buf.substr(0, nl); buf.erase(0, nl + 1); if (Json::parse(l, r)) return r; bad["harness"] = "unparsable oracle reply"; return bad; }
			char tmp[65536];
			ssize_t n = read(from, tmp, sizeof tmp);
			if (n <= 0) { bad["harness"] = "pkgcheck.py died"; return bad; }
			buf.append(tmp, (size_t)n);
		}
	}
};
PyOracle g_py;

int plain_format_for(int fmt) { return fmt == FMT_ODT ? FMT_FODT : fmt == FMT_ITMZ ? FMT_ITMZ : FMT_HTML; }

struct PkgEngine : Engine {
	const char * name() const override { return "pkg"; }
	const char * property() const override { return "C09"; }
	std::string rule() const override {
		return "plan = 1..4 package conversions (EPUB, ODT, TextPack, ITMZ; directory NULL, '/sim/assets' or '/sim/assets/') of small documents with 0..5 images (inline, reference style, repeated URL, same file "
		       "under two spellings), css metadata, titles with reserved characters, footnotes referenced before/after images, headings - under an environment the simulator owns: per asset path "
		       "present (1 byte .. 64 KiB, NUL bytes, BOM) / open_fail / read_error after k bytes / empty / directory / content changing between opens; clock anywhere in [1980, 2107] with jumps between two "
		       "time() calls (one environment in ten outside that range); libc PRNG state per operation with random footnote/label extensions so that library-side srand interleaves with uuid draws; one package in three rebuilt through the c-string / DString API families; one operation in ten through the command line tool. Oracle: independent ZIP/XML reader (CRC of every member, "
		       "unique names, required members and order, manifest/container contents), asset table injective and consistent with what each read delivered, main document equal to the plain format rendered "
		       "in a fresh process under the same environment. Distinct = plan hash; non-trivial = >=1 asset referenced and >=1 environment perturbation fired.";
	}

	Json plan(uint64_t seed, const std::string & tier) override {
		(void)tier;
		Rng kn = substream(seed, "knobs"), w = substream(seed, "workload"), fr = substream(seed, "faults"), en = substream(seed, "env");
		Json p = Json::object();
		p["engine"] = "pkg";
		Json knobs = Json::object();
		static const int starts[] = {1, 16, 64, 1024, 1024};
		knobs["dstring_start"] = starts[kn.below(5)];
		knobs["slab_objects"] = kn.chance(1, 3) ? 17 : 1024;
		knobs["read_chunk"] = kn.chance(1, 3) ? (int64_t)kn.range(1, 4096) : 0;
		knobs["malloc_fill"] = kn.chance(1, 2) ? 1 : 0;      // fresh heap memory holds garbage that depends on the allocation history (core.h)
		p["knobs"] = knobs;
		// ---- the asset directory
		static const char * names[] = {"a.png", "b.jpg", "sub/c.png", "d e.gif", "style.css", "big.bin", "tiny.png"};
		Json files = Json::object();
		int nassets = (int)w.range(0, 6);
		std::vector<std::string> urls;
		for (int i = 0; i < nassets; i++) {
			std::string nm = names[w.below(7)];
			bool dupname = false; for (auto & u : urls) if (u == nm) dupname = true;
			if (dupname) continue;
			urls.push_back(nm);
			Json f = Json::object();
			unsigned k = (unsigned)fr.below(20);
			size_t sz;
			unsigned sk = (unsigned)w.below(10);
			if (sk < 3) sz = (size_t)w.range(1, 4); else if (sk < 7) sz = (size_t)w.range(5, 600); else if (sk < 9) sz = (size_t)w.range(4000, 66000); else sz = (size_t)w.range(30000, 140000);      // up to several 32 KiB compressor windows
			std::string content;
			// what the bytes look like decides which path the compressor takes: mixed (a few percent compressible), uniform random (incompressible,
			// like a JPEG: stored blocks), one byte repeated or a short text repeated (long matches, tiny output)
			unsigned ck = (unsigned)w.below(8);
			if (ck == 0) { for (size_t j = 0; j < sz; j++) content.push_back((char)w.below(256)); }
			else if (ck == 1) content.assign(sz, (char)w.below(256));
			else if (ck == 2) { static const char unit[] = "body { color: red; margin: 0 auto; }\n"; while (content.size() < sz) content += unit; content.resize(sz); }
			else for (size_t j = 0; j < sz; j++) content.push_back((char)(w.chance(1, 6) ? 0 : w.below(256)));
			if (w.chance(1, 10)) content = "\xef\xbb\xbf" + content;
			Json v = Json::array(); v.push(content);
			if (k == 0) { v.push(content + "second version"); }
			f["versions"] = v;
			Json faults = Json::array();
			if (k == 1) { Json fj = Json::object(); fj["kind"] = "open_fail"; fj["nth"] = 0; fj["errno"] = fr.chance(1, 2) ? ENOENT : EACCES; faults.push(fj); }
			else if (k == 2) { Json fj = Json::object(); fj["kind"] = "read_error"; fj["nth"] = 0; fj["k"] = (int64_t)fr.below(content.size() + 1); fj["errno"] = EIO; faults.push(fj); }
			else if (k == 3) { Json fj = Json::object(); fj["kind"] = "read_error"; fj["nth"] = 0; fj["k"] = 0; fj["errno"] = EIO; faults.push(fj); }
			f["faults"] = faults;
			if (k == 4) { v = Json::array(); v.push(std::string()); f["versions"] = v; }                   // empty file
			if (k == 5) { f = Json::object(); f["dir"] = true; }                                            // a directory in its place
			if (k != 6) files["/sim/assets/" + nm] = f;                                                     // k == 6: the file simply is not there
		}
		Json world = Json::object(); world["files"] = files; p["world"] = world;
		// ---- documents
		int ndocs = (int)w.range(1, 2);
		bool labels_bias = false;
		Json docs = Json::array();
		for (int d = 0; d < ndocs; d++) {
			DocOpts o; o.toc = w.chance(1, 3); o.html = w.chance(1, 2); o.emails = w.chance(1, 3); o.critic = false;
			o.blocks_max = 7;
			for (auto & u : urls) if (u != "style.css") { o.image_urls.push_back(u); if (w.chance(1, 4)) o.image_urls.push_back("./" + u); }
			if (w.chance(1, 5)) o.image_urls.push_back("http://example.com/remote.png");
			if (w.chance(1, 5)) { static const char * odd[] = {"a.png?v=2&cache=no", "q3.sales&costs", "pic.v<2", "sub/c.png#frag&x"}; o.image_urls.push_back(odd[w.below(4)]); }      // URLs with XML-reserved characters, also after the last dot
			if (w.chance(1, 6)) o.image_urls.push_back("/sim/assets/a.png");
			std::string doc;
			if (w.chance(2, 3)) {
				doc += "Title: T " + std::string(w.chance(1, 2) ? "& <b> \"q\"" : "plain") + "\n";
				if (w.chance(1, 2)) doc += w.chance(1, 3) ? "Author: A & B <c@d.ee> \"q\" 'r'\n" : "Author: A. U. Thor\n";
				if (w.chance(1, 3)) doc += "CSS: style.css\n";
				if (w.chance(1, 4)) doc += "Date: 2020-02-02\n";
				if (w.chance(1, 4)) doc += "uuid: 11111111-2222-4333-8444-555555555555\n";
				doc += "\n";
				o.meta = false;
			}
			std::string body = gen_doc(w, o);
			if (w.chance(1, 8)) {
				// many headings, irregular nesting, markup / a link / reserved characters inside headings: the navigation document's material
				int nh = (int)w.range(8, 40);
				for (int h = 0; h < nh; h++) {
					static const char * ht[] = {"plain", "*em* & <x>", "[a link](http://example.com/?a=1&b=2)", "\"quoted\" 'single'", "`code` ~sub~", "caf\xc3\xa9 \xe6\x97\xa5"};
					body += std::string(1 + w.below(6), '#') + " H" + std::to_string(h) + " " + ht[w.below(6)] + "\n\ntext " + std::to_string(h) + "\n\n";
				}
			}
			if (o.image_urls.size() >= 2 && w.chance(1, 6)) {
				// the shape in which the library's second srand() (one per heading label, and once more per heading when a {{TOC}} is built) sits between
				// uuid draws: a cover image, a TOC, images inside and after headings - all with different URLs where the directory has them
				auto U = [&](size_t i) { return o.image_urls[i % o.image_urls.size()]; };
				size_t u0 = w.below(o.image_urls.size());
				body = "![cover](" + U(u0) + ")\n\n{{TOC}}\n\n# One ![h1](" + U(u0 + 1) + ")\n\ntext ![x](" + U(u0 + 2) + ")\n\n## Two ![h2](" + U(u0 + 3) + ")\n\n![y](" + U(u0 + 4) + ")\n\n" + body;
				labels_bias = true;
			}
			if (o.toc && w.chance(1, 2)) body = "{{TOC}}\n\n" + body;
			if (!o.image_urls.empty() && w.chance(1, 4)) body = "![cover](" + o.image_urls[w.below(o.image_urls.size())] + ")\n\n" + body;      // a cover image before the first heading
			// raw filters and header-level metadata legitimately differ between EPUB and HTML
			size_t rp;
			while ((rp = body.find("{=")) != std::string::npos) body.replace(rp, 2, "{-");
			// the F6 shape: images that each follow a reference to the same footnote
			if (!o.image_urls.empty() && w.chance(1, 3)) {
				body += "x[^shared] ![i](" + o.image_urls[0] + ") y[^shared] ![j](" + o.image_urls[w.below(o.image_urls.size())] + ") z[^shared] ![k](" + o.image_urls[w.below(o.image_urls.size())] + ")\n\n[^shared]: the note\n";
			}
			docs.push(doc + body);
		}
		p["docs"] = docs;
		Json ops = Json::array();
		int nops = (int)w.range(1, 4);
		for (int i = 0; i < nops; i++) {
			Json o = Json::object();
			o["k"] = "PKG";
			static const int pf[] = {FMT_EPUB, FMT_EPUB, FMT_ODT, FMT_TEXTBUNDLE_COMPRESSED, FMT_ITMZ};
			o["fmt"] = pf[w.below(5)];
			o["doc"] = (int64_t)w.below((uint64_t)ndocs);
			unsigned long ext = gen_ext(w, true) & ~(X_SNIPPET);
			if (labels_bias && w.chance(1, 2)) ext = (ext & ~X_RANDOM_FOOT) | X_RANDOM_LABELS;      // random labels WITHOUT random footnotes: only the label-side srand runs
			else if (w.chance(1, 3)) ext |= X_RANDOM_FOOT;
			else if (w.chance(1, 3)) ext |= X_RANDOM_LABELS;      // the other library-side srand (one per heading label)
			o["ext"] = (int64_t)ext;
			o["lang"] = (int64_t)w.below(7);
			unsigned dk = (unsigned)w.below(6);
			if (dk >= 1) o["dir"] = dk == 1 ? "/sim/assets/" : "/sim/assets";
			o["env"] = gen_env(en);
			if (w.chance(1, 3)) o["also"] = w.chance(1, 2) ? "s" : "d";      // the same package through mmd_string_convert_to_data / mmd_d_string_convert_to_data, same environment
			if (w.chance(1, 10)) { o["k"] = "CLI_PKG"; o["ext"] = 0; o["lang"] = 0; o["dir"] = "/sim/assets"; o.erase("also"); }      // the command line tool: -t FORMAT -o FILE (observe_at: file written by CLI -o)
			ops.push(o);
		}
		p["ops"] = ops;
		return p;
	}

	Json execute(const Json & plan, bool verbose) override {
		(void)verbose;
		const Json & kn = plan.at("knobs");
		mmd6_verif_dstring_start = (size_t)std::max<int64_t>(1, kn.geti("dstring_start", 1024));
		mmd6_verif_pool_objects = (size_t)std::max<int64_t>(1, kn.geti("slab_objects", 1024));
		simfs_read_chunk = (long)kn.geti("read_chunk", 0);
		simfs_reset();
		simfs_load(plan.at("world"));
		PoolBracket pb;
		const Json & docs = plan.at("docs");
		const Json & ops = plan.at("ops");
		Json res = Json::object(), outs = Json::array();
		std::map<std::string, int64_t> probes;
		std::set<std::string> st;
		int64_t executed = 0, assets_total = 0;
		for (size_t k = 0; k < ops.size(); k++) {
			const Json & op = ops[k];
			child_mark_op((int)k);
			apply_env(op);
			for (auto & f : g_sim.files) f.second.opens = 0;
			g_sim.open_log.clear();
			std::string kind = op.gets("k");
			const std::string & doc = docs[(size_t)op.geti("doc") % docs.size()].s;
			Json o = Json::object();
			o["k"] = kind;
			if (kind == "CLI_PKG") {
				static const char * names[] = {"html", "epub", "latex", "beamer", "memoir", "fodt", "odt", "bundle", "bundlezip", "opml", "itmz", "mmd"};
				SimFile f; f.versions.push_back(doc);
				g_sim.files["/sim/assets/__doc.txt"] = f;
				std::vector<std::string> args = {"multimarkdown", "-t", names[op.geti("fmt") % 12], "-o", "/sim/assets/__out.bin", "/sim/assets/__doc.txt"};
				std::vector<char *> argv; for (auto & a2 : args) argv.push_back(&a2[0]); argv.push_back(nullptr);
				int rc = IN_LIB(mmd_cli_main((int)args.size(), argv.data()));
				auto it = g_sim.files.find("/sim/assets/__out.bin");
				o["archive"] = it == g_sim.files.end() ? std::string() : it->second.written;
				o["rc"] = rc; o["cli"] = true; o["assets"] = Json::array();
				if (it != g_sim.files.end()) g_sim.files.erase(it);
				g_sim.files.erase("/sim/assets/__doc.txt");
				probes["cli_packages"]++;
				g_log.ev("clipkg", digest(o.gets("archive")));
			} else if (kind == "RENDER") {
				// the plain format, as the first library call of a fresh process (reference)
				if (op.geti("fmt") == FMT_FODT) {
					// the flat OpenDocument file (with its office:text element) only exists through convert_to_data
					DString * r = IN_LIB(mmd_string_convert_to_data(doc.c_str(), (unsigned long)op.geti("ext"), (short)op.geti("fmt"), (short)op.geti("lang"), NULL));
					o["text"] = r ? std::string(r->str, r->currentStringLength) : std::string();
					if (r) IN_LIB_V(d_string_free(r, true));
				} else {
					char * r = IN_LIB(mmd_string_convert(doc.c_str(), (unsigned long)op.geti("ext"), (short)op.geti("fmt"), (short)op.geti("lang")));
					o["text"] = std::string(r ? r : "");
					free(r);
				}
			} else {
				uint64_t srand0 = g_sim.srand_calls, draws0 = g_sim.rand_draws;
				mmd_engine * e = IN_LIB(mmd_engine_create_with_string(doc.c_str(), (unsigned long)op.geti("ext")));
				IN_LIB_V(mmd_engine_set_language(e, (short)op.geti("lang")));
				const char * dir = op.has("dir") ? op.at("dir").s.c_str() : NULL;
				DString * r = IN_LIB(mmd_engine_convert_to_data(e, (short)op.geti("fmt"), dir));
				std::string archive;
				if (r) { archive.assign(r->str, r->currentStringLength); IN_LIB_V(d_string_free(r, true)); }
				o["archive"] = archive;
				// the engine's asset table (white box on purpose) and what each asset read delivered
				Json at = Json::array();
				asset * a, * tmp;
				std::map<std::string, int> nth_of_path;      // the library reads the assets in table order: the j-th asset naming a file gets that file's j-th open
				HASH_ITER(hh, e->asset_hash, a, tmp) {
					Json j = Json::object();
					j["url"] = std::string(a->url ? a->url : ""); j["path"] = std::string(a->asset_path ? a->asset_path : "");
					bool opened = false, ok = false, never_opened = false, read_failed = false; std::string delivered;
					if (dir && a->url) {
						std::string full = a->url[0] == '/' ? std::string(a->url) : std::string(dir) + (dir[strlen(dir) - 1] == '/' ? "" : "/") + a->url;
						bool tl = false;
						std::string norm = simfs_normalize(full, &tl);
						int want = nth_of_path[norm]++, seen = 0;
						for (auto & rec : g_sim.open_log) if (rec.path == norm) { if (seen++ == want) { opened = true; ok = rec.ok; delivered = rec.delivered; read_failed = rec.ok && !rec.complete; } }
						if (!opened) {
							// the package builder never tried to read this asset: ask the file layer what an attempt would have delivered
							// (the oracle then expects the member like for any other readable asset)
							never_opened = true;
							FILE * pf = simfs_fopen(full.c_str(), "r");
							if (pf) {
								char buf[4096]; size_t n;
								while ((n = fread(buf, 1, sizeof buf, pf)) > 0) delivered.append(buf, n);
								ok = !ferror(pf);
								fclose(pf);
							}
							opened = true;
							probes["asset_never_opened_by_library"]++;
						}
					}
					// scan_file strips a leading BOM from everything it reads
					// scan_file strips a leading byte-order mark from everything it reads, assets included; a builder that stores the bytes as they are is
					// just as consistent, so the oracle accepts either form
					std::string raw_delivered = delivered;
					if (delivered.compare(0, 3, "\xef\xbb\xbf") == 0) delivered.erase(0, 3);
					if (delivered.compare(0, 2, "\xef\xff") == 0) delivered.erase(0, 2);
					if (delivered.compare(0, 2, "\xff\xfe") == 0) delivered.erase(0, 2);
					if (raw_delivered != delivered) j["delivered_raw"] = raw_delivered;
					if (read_failed) j["read_failed"] = true;      // the read ended with an I/O error (or never reached the end of the file)
					j["opened"] = opened; j["ok"] = ok; j["delivered"] = delivered; if (never_opened) j["never_opened"] = true;
					at.push(j);
					assets_total++;
					if (opened && !ok) probes["asset_missing_or_unopenable"]++;
					if (ok && delivered.empty()) probes["asset_empty_or_unreadable"]++;
				}
				o["assets"] = at;
				if (!dir && at.size()) probes["directory_null_with_images"]++;
				if (g_sim.srand_calls > srand0 && at.size() >= 2) probes["srand_between_uuid_draws_possible"]++;
				if (op.at("env").geti("clock") < 946684800) probes["clock_before_2000"]++;
				o["rand_draws"] = (int64_t)(g_sim.rand_draws - draws0);
				IN_LIB_V(mmd_engine_free(e, true));
				g_log.ev("pkg", digest(archive));
				if (op.has("also")) {
					// "DString returned by mmd_*_convert_to_data": the other two API families, under exactly the same environment
					// (clock, libc PRNG state, per-path open counters) - the archive must come out byte-identical; if it does not, it is
					// judged on its own by the structural clauses
					apply_env(op);
					for (auto & f : g_sim.files) f.second.opens = 0;
					std::string a2;
					if (op.gets("also") == "s") {
						DString * r2 = IN_LIB(mmd_string_convert_to_data(doc.c_str(), (unsigned long)op.geti("ext"), (short)op.geti("fmt"), (short)op.geti("lang"), dir));
						if (r2) { a2.assign(r2->str, r2->currentStringLength); IN_LIB_V(d_string_free(r2, true)); }
					} else {
						DString * src = IN_LIB(d_string_new(doc.c_str()));
						DString * r2 = IN_LIB(mmd_d_string_convert_to_data(src, (unsigned long)op.geti("ext"), (short)op.geti("fmt"), (short)op.geti("lang"), dir));
						if (r2) { a2.assign(r2->str, r2->currentStringLength); IN_LIB_V(d_string_free(r2, true)); }
						IN_LIB_V(d_string_free(src, true));
					}
					if (a2 == archive) probes["other_api_family_identical"]++; else { o["archive2"] = a2; probes["other_api_family_differs"]++; }
					g_log.ev("pkg2", digest(a2));
				}
				st.insert("f" + std::to_string(op.geti("fmt")) + "/d" + (dir ? (dir[strlen(dir) - 1] == '/' ? "2" : "1") : "0") + "/a" + std::to_string(std::min<size_t>(at.size(), 4)) + "/r" + std::to_string((op.geti("ext") & (int64_t)X_RANDOM_FOOT) ? 1 : 0) +
						  "/s" + std::to_string(g_sim.srand_calls > srand0));
			}
			outs.push(o);
			executed++;
		}
		res["ops"] = outs;
		res["ops_executed"] = executed;
		res["violation"] = Json();
		Json pj = Json::object(); for (auto & kv : probes) pj[kv.first] = kv.second; res["probes"] = pj;
		Json sj = Json::array(); for (auto & x : st) sj.push(x); res["states"] = sj;
		uint64_t fired = 0; for (auto & kv : g_sim.fired) if (kv.first != "realloc_moved_forced") fired += kv.second;
		Json ex = Json::object(); ex["assets"] = assets_total; ex["fired"] = (int64_t)fired; res["extra"] = ex;
		return res;
	}

	Json render_plan(const Json & plan, const Json & op) {
		Json p = Json::object();
		p["engine"] = "pkg"; p["knobs"] = plan.at("knobs"); p["world"] = plan.at("world");
		Json docs = Json::array(); docs.push(plan.at("docs")[(size_t)op.geti("doc") % plan.at("docs").size()]); p["docs"] = docs;
		Json r = op;
		int fmt = (int)op.geti("fmt");
		r["k"] = "RENDER"; r["doc"] = 0; r["fmt"] = plain_format_for(fmt);
		if (fmt == FMT_EPUB || fmt == FMT_TEXTBUNDLE_COMPRESSED) r["ext"] = (op.geti("ext") | (int64_t)X_COMPLETE) & ~(int64_t)X_SNIPPET;
		r.erase("dir");
		Json ops = Json::array(); ops.push(r); p["ops"] = ops;
		return p;
	}
	Json isolate(const Json & plan, int k) override {
		Json p = plan; Json ops = Json::array(); ops.push(plan.at("ops")[(size_t)k]); p["ops"] = ops;
		Json docs = Json::array(); docs.push(plan.at("docs")[(size_t)ops[(size_t)0].geti("doc") % plan.at("docs").size()]); p["docs"] = docs; p["ops"][(size_t)0]["doc"] = 0;
		return p;
	}
	// every operation of this engine builds its package from scratch: a crash is the package builder failing in this environment
	bool crash_in_scope() const override { return true; }

	Json judge(const Json & plan, const ChildOutcome & out, Ctx & ctx) override {
		if (out.status != "finished") return Json();
		const Json & ops = plan.at("ops");
		const Json & outs = out.result.at("ops");
		for (size_t k = 0; k < ops.size() && k < outs.size(); k++) {
			const Json & op = ops[k];
			if (op.gets("k") != "PKG" && op.gets("k") != "CLI_PKG") continue;
			Json req = Json::object();
			if (op.gets("k") == "CLI_PKG") req["cli"] = true;
			req["fmt"] = op.geti("fmt");
			req["archive"] = outs[k].at("archive");
			req["assets"] = outs[k].at("assets");
			req["source"] = plan.at("docs")[(size_t)op.geti("doc") % plan.at("docs").size()];
			req["ext"] = op.geti("ext");
			if (op.has("dir")) req["directory"] = op.at("dir");
			if (op.gets("k") == "PKG") {
				ChildOutcome r = ctx.run_ref(render_plan(plan, op));
				req["ref_status"] = r.status;
				if (r.status == "finished") req["ref_main"] = r.result.at("ops")[(size_t)0].at("text");
			} else req["ref_status"] = "not-applicable";      // the CLI transcludes, seeds rand from the clock and hides its asset table: structure and CRCs only
			Json v = g_py.ask(req);
			if (v.has("harness")) { Json h = Json::object(); h["harness"] = "oracle: " + v.gets("harness"); return h; }
			if (!v.getb("ok")) {
				Json viol = Json::object();
				viol["clause"] = v.gets("clause"); viol["class"] = "fmt" + std::to_string(op.geti("fmt")); viol["detail"] = v.gets("detail"); viol["op"] = (int64_t)k;
				viol["rand_ext"] = (op.geti("ext") & (int64_t)(X_RANDOM_FOOT | X_RANDOM_LABELS)) != 0;
				return viol;
			}
			if (outs[k].has("archive2")) {
				// the other API family produced different bytes under the same environment: that archive has to stand on its own
				Json req2 = req; req2["cli"] = true; req2["archive"] = outs[k].at("archive2"); req2["ref_status"] = "not-applicable";
				Json v2 = g_py.ask(req2);
				if (v2.has("harness")) { Json h = Json::object(); h["harness"] = "oracle: " + v2.gets("harness"); return h; }
				if (!v2.getb("ok")) {
					Json viol = Json::object();
					viol["clause"] = v2.gets("clause"); viol["class"] = "fmt" + std::to_string(op.geti("fmt")) + "/family-" + op.gets("also"); viol["detail"] = v2.gets("detail"); viol["op"] = (int64_t)k;
					return viol;
				}
			}
		}
		return Json();
	}
	bool nontrivial(const Json &, const Json & result) override {
		return result.at("extra").geti("assets") >= 1 && result.at("extra").geti("fired") >= 1;
	}
	std::vector<Json> simplify(const Json & plan) override {
		std::vector<Json> c;
		const Json & kn = plan.at("knobs");
		if (kn.geti("dstring_start") != 1024) { Json p = plan; p["knobs"]["dstring_start"] = 1024; c.push_back(p); }
		if (kn.geti("slab_objects") != 1024) { Json p = plan; p["knobs"]["slab_objects"] = 1024; c.push_back(p); }
		if (kn.geti("read_chunk") != 0) { Json p = plan; p["knobs"]["read_chunk"] = 0; c.push_back(p); }
		for (auto & kv : plan.at("world").at("files").o) {
			{ Json p = plan; p["world"]["files"].erase(kv.first); c.push_back(p); }
			if (kv.second.at("faults").size()) { Json p = plan; p["world"]["files"][kv.first]["faults"] = Json::array(); c.push_back(p); }
			if (kv.second.at("versions").size() > 1) { Json p = plan; p["world"]["files"][kv.first]["versions"].a.resize(1); c.push_back(p); }
			if (kv.second.at("versions").size() && kv.second.at("versions")[(size_t)0].s.size() > 4) { Json p = plan; std::string s = kv.second.at("versions")[(size_t)0].s; p["world"]["files"][kv.first]["versions"][(size_t)0] = s.substr(0, s.size() / 2); c.push_back(p); }
		}
		const Json & docs = plan.at("docs");
		for (size_t d = 0; d < docs.size(); d++) {
			const std::string & s = docs[d].s;
			std::vector<std::string> lines; size_t a = 0;
			while (a < s.size()) { size_t b = s.find('\n', a); if (b == std::string::npos) b = s.size() - 1; lines.push_back(s.substr(a, b + 1 - a)); a = b + 1; }
			if (lines.size() > 1) {
				size_t h = lines.size() / 2;
				std::string t1, t2; for (size_t j = 0; j < lines.size(); j++) (j < h ? t1 : t2) += lines[j];
				Json p = plan; p["docs"][d] = t1; c.push_back(p);
				Json q = plan; q["docs"][d] = t2; c.push_back(q);
				if (lines.size() <= 24) for (size_t i = 0; i < lines.size(); i++) { std::string t; for (size_t j = 0; j < lines.size(); j++) if (j != i) t += lines[j]; Json r = plan; r["docs"][d] = t; c.push_back(r); }
			}
		}
		const Json & ops = plan.at("ops");
		for (size_t k = 0; k < ops.size(); k++) {
			const Json & o = ops[k];
			if (o.geti("ext") != 0) { Json p = plan; p["ops"][k]["ext"] = 0; c.push_back(p); for (int bit = 0; bit < 17; bit++) if (o.geti("ext") & (1 << bit)) { Json q = plan; q["ops"][k]["ext"] = o.geti("ext") & ~(int64_t)(1 << bit); c.push_back(q); } }
			if (o.geti("lang") != 0) { Json p = plan; p["ops"][k]["lang"] = 0; c.push_back(p); }
			if (o.at("env").has("clock_step")) { Json p = plan; p["ops"][k]["env"].erase("clock_step"); c.push_back(p); }
		}
		return c;
	}
	Json sample(const Json & plan) override {
		Json s = Json::object();
		Json fl = Json::object();
		for (auto & kv : plan.at("world").at("files").o) { Json d = Json::object(); if (kv.second.getb("dir")) d["dir"] = true; else { d["bytes"] = (int64_t)(kv.second.at("versions").size() ? kv.second.at("versions")[(size_t)0].s.size() : 0); if (kv.second.at("faults").size()) d["faults"] = kv.second.at("faults"); } fl[kv.first] = d; }
		s["asset_files"] = fl;
		Json ops = Json::array();
		for (auto & o : plan.at("ops").a) { Json c = o; ops.push(c); }
		s["ops"] = ops;
		Json dl = Json::array(); for (auto & d : plan.at("docs").a) dl.push(d.s.substr(0, 300)); s["docs_head"] = dl;
		return s;
	}
};
EngineReg reg(new PkgEngine());
}
#endif
