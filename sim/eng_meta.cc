// Engine `meta` (C11): histories of metadata queries and updates against a persistent client
// (one engine / one DString edited in place / a string threaded through the c-string family),
// checked operation by operation against an ordered-map reference model (DESIGN appendix A.2).
#if defined(VARIANT_A) || defined(VARIANT_B)
#include "libapi.h"
#include "simfs.h"

namespace {

std::string norm_key(const std::string & k) {
	std::string r;
	for (size_t i = 0; i < k.size(); i++) {
		unsigned char c = (unsigned char)k[i];
		if (c >= 0x80) r.push_back((char)c);
		else if (isalnum(c) || c == '.' || c == '_' || c == '-' || c == ':') r.push_back((char)tolower(c));
	}
	return r;
}
std::string norm_val(const std::string & v) {
	std::string r;
	bool pending = false;
	for (char c : v) {
		if (c == ' ' || c == '\t' || c == '\n' || c == '\r') { if (!r.empty()) pending = true; }
		else { if (pending) r.push_back(' '); pending = false; r.push_back(c); }
	}
	return r;
}
std::string html_esc(const std::string & s) {
	std::string r;
	for (char c : s) { if (c == '"') r += "&quot;"; else if (c == '&') r += "&amp;"; else if (c == '<') r += "&lt;"; else if (c == '>') r += "&gt;"; else r.push_back(c); }
	return r;
}

const char * KEYWORDS[] = {"Title", "Author", "Date", "Foo", "Bar", "Affiliation", "Web", "Keywords", "Revision", "X1", "my key", "a.b", "c_d", "e-f", "2nd", "Subject Line", "ABC def", "k9",
						   "Foo Bar", "Dated", "Web Site", "Auth", "X12", "Key",     // keys that are prefixes / extensions of other keys once normalised
						   "1. Author", "2. Reviewer", "K",
						   "HTML Header", "XHTML Header"};                              // special keys whose value goes into <head> as it stands                                 // keys that start like an enumerated list item (legal anywhere but on the first line, where the line IS a list item)
const int NKEYWORDS = sizeof(KEYWORDS) / sizeof(KEYWORDS[0]);
const char * WORDS[] = {"alpha", "Beta", "v", "w", "&", "&amp;", "a:b", ":", "x<y", ">", "\"q\"", "it's", "C:\\Data\\", "caf\xc3\xa9", "\xe6\x97\xa5\xe6\x9c\xac", "*em*", "_u_", "100%", "a|b", "[x]", "(y)", "#1", "1.", "-", "+", "`c`", "~", "^", "$m$", "{z}", "back\\slash", "http://x.y/z?a=1&b=2", "e@f.gh", "=", ";", ",", "!", "?", "@", "abc.", "\xc3\xbc" "ber"};
const int NWORDS = sizeof(WORDS) / sizeof(WORDS[0]);

std::string blanks(Rng & r, int lo, int hi) { std::string s; int n = (int)r.range(lo, hi); for (int i = 0; i < n; i++) s.push_back(r.chance(1, 4) ? '\t' : ' '); return s; }

std::string spell_key(Rng & r, const std::string & base) {
	std::string s;
	for (size_t i = 0; i < base.size(); i++) {
		char c = base[i];
		if (c == ' ') { s += blanks(r, 1, 2); continue; }
		if (i > 0 && isalpha((unsigned char)c)) { unsigned k = (unsigned)r.below(3); c = k == 0 ? (char)toupper(c) : k == 1 ? (char)tolower(c) : c; }
		s.push_back(c);
	}
	return s;
}

std::string gen_value_text(Rng & r, bool multiline, std::string * normalised, const std::string & eol) {
	// words joined by runs of blanks; continuation lines always indented
	std::string raw, norm;
	int nw = (int)r.range(1, 5);
	// one multi-line value in three continues on UN-indented lines (any line of the block that is not `key:` continues the value);
	// such a line starts with a plain word, and nothing after the first break carries a colon, so it cannot be read as a key
	bool unindented = multiline && r.chance(1, 3), broke = false;
	static const char * SAFE[] = {"alpha", "Beta", "v", "w", "it's", "caf\xc3\xa9", "abc.", "\xc3\xbc" "ber", "x<y"};
	for (int i = 0; i < nw; i++) {
		std::string wd = WORDS[r.below(NWORDS)];
		if (unindented && broke && wd.find(':') != std::string::npos) wd = "w";
		if (r.chance(1, 6)) {
			// a word with random multi-byte characters: every continuation byte value (0x80..0xBF, incl. 0xA0 and 0x85) gets its turn
			wd = "u";
			int n = (int)r.range(1, 3);
			for (int j = 0; j < n; j++) {
				if (r.chance(1, 2)) { wd.push_back((char)r.range(0xC2, 0xDF)); wd.push_back((char)r.range(0x80, 0xBF)); }
				else { wd.push_back((char)r.range(0xE1, 0xEC)); wd.push_back((char)r.range(0x80, 0xBF)); wd.push_back((char)r.range(0x80, 0xBF)); }
				if (r.chance(1, 2)) wd.push_back((char)('a' + r.below(26)));
			}
		}
		if (i == 0 && wd.compare(0, 2, "//") == 0) wd = "x";
		if (i + 1 < nw && !wd.empty() && wd.back() == '\\') wd = "back\\slash";      // a trailing backslash only at the very end of the value (before blanks or a line end it would be an escape)
		if (i) {
			// (a backslash directly before a line break INSIDE a value is the hard-break syntax - not generated; at the very end of a value it is a character like any other)
			if (multiline && r.chance(1, 3) && raw.back() != '\\') {
				if (unindented) { raw += blanks(r, 0, 2) + eol; wd = SAFE[r.below(sizeof(SAFE) / sizeof(SAFE[0]))]; broke = true; }
				else raw += blanks(r, 0, 2) + eol + (r.chance(1, 2) ? "\t" : "    ") + blanks(r, 0, 2);
			} else raw += blanks(r, 1, 3);
			norm += " ";
		}
		raw += wd; norm += wd;
	}
	*normalised = norm;
	return raw;
}

struct MetaEngine : Engine {
	const char * name() const override { return "meta"; }
	const char * property() const override { return "C11"; }
	std::string rule() const override {
		return "plan = one client (S: c-string family threading the returned string; D: one DString edited in place; E: one engine for the whole run), one generated document "
		       "(abstract metadata list of 0..6 keys written in a random concrete spelling: key case/inner blanks, blanks around the colon, values as words joined by runs of blanks, indented and un-indented continuation lines, "
		       "YAML fences, block ended by blank line / EOF with newline / EOF without newline, CRLF) and 1..30 of HAS, KEYS, VALUE(key spelling), UPDATE(existing key), ADD(new key), RENDER (complete HTML), "
		       "and for E also PARSE / CONVERT; reference model = ordered map + constant tail. Distinct = plan hash; non-trivial = >=2 ops with an UPDATE/ADD followed by a query.";
	}

	Json plan(uint64_t seed, const std::string & tier) override {
		Rng kn = substream(seed, "knobs"), w = substream(seed, "workload");
		Json p = Json::object();
		p["engine"] = "meta";
		Json knobs = Json::object();
		static const int starts[] = {1, 3, 16, 64, 1024, 1024};
		knobs["dstring_start"] = starts[kn.below(6)];
		knobs["slab_objects"] = kn.chance(1, 3) ? 3 : 1024;
		knobs["malloc_fill"] = kn.chance(1, 2) ? 1 : 0;      // fresh heap memory holds garbage that depends on the allocation history (core.h)
		p["knobs"] = knobs;
		static const char * clients[] = {"S", "D", "E", "E"};
		p["client"] = clients[w.below(4)];
		// ---- document ----
		std::string eol = w.chance(1, 8) ? "\r\n" : "\n";
		int nkeys = w.chance(1, 10) ? 0 : (int)w.range(1, 6);
		bool yaml = nkeys > 0 && w.chance(1, 6);
		bool multiline = w.chance(1, 2);
		std::vector<int> order;
		for (int i = 0; i < NKEYWORDS; i++) order.push_back(i);
		for (int i = NKEYWORDS - 1; i > 0; i--) std::swap(order[(size_t)i], order[w.below((uint64_t)i + 1)]);
		Json model = Json::array(), mlines = Json::array();
		std::string block;
		if (yaml) block += "---" + eol;
		std::vector<std::string> used;
		for (int i = 0; i < nkeys; i++) {
			std::string base = KEYWORDS[order[(size_t)i]];
			std::string nk = norm_key(base);
			bool dup = false; for (auto & u : used) if (u == nk) dup = true;
			if (dup) continue;
			if (used.empty() && isdigit((unsigned char)base[0]) && base.size() > 2 && base[1] == '.' && base[2] == ' ') continue;      // not as the first line
			used.push_back(nk);
			std::string nv;
			std::string raw = gen_value_text(w, multiline, &nv, eol);
			std::string line = spell_key(w, base) + blanks(w, 0, 1) + ":" + blanks(w, 0, 3) + raw + blanks(w, 0, 2) + eol;
			block += line;
			Json kv = Json::array(); kv.push(nk); kv.push(nv); model.push(kv);
			Json ml = Json::object(); ml["raw"] = line; ml["k"] = nk; ml["v"] = nv; mlines.push(ml);
		}
		if (yaml) block += "---" + eol;
		std::string body, tail;
		unsigned term = model.size() ? (unsigned)w.below(4) : 0;
		if (model.size() == 0) {
			body = w.chance(1, 2) ? "Just a paragraph" + eol + eol + "second" + eol : "# Heading" + eol + eol + "text" + eol;
			if (w.chance(1, 6)) body = w.chance(1, 2) ? std::string() : std::string("one line, no newline");      // the empty document and the shortest ones
			tail = body; block.clear();
		} else if (term <= 1) {
			// "x all bodies": what follows the blank line is never metadata, whatever it looks like
			static const char * bodies[] = {
				"Body *text* here.\n\nSecond: paragraph\n", "# Heading\n", "Looks: like a key\nAnother: one\n\ntext\n", "---\n\nafter a rule\n", "[ref]: http://example.com/ \"t\"\n\nuses [ref]\n",
				"| a | b |\n| --- | --- |\n| c: d | e |\n", "    indented: code\n", "* item: one\n* item two\n", "<div>\nhtml: block\n</div>\n", "Title: not the title\n", "last line without newline: x"};
			std::string b0 = term == 0 ? bodies[0] : term == 1 && w.chance(1, 2) ? bodies[1] : bodies[w.below(sizeof(bodies) / sizeof(bodies[0]))];
			for (char c : b0) { if (c == '\n') body += eol; else body.push_back(c); }
			tail = eol + body;
		}
		else if (term == 2) { tail = ""; }                                   // EOF right after the newline of the last meta line
		else { tail = ""; block.resize(block.size() - eol.size()); }         // EOF without newline
		p["lines"] = mlines;
		p["eol"] = eol;
		p["tail"] = tail;
		p["term"] = term == 0 || term == 1 ? "blank_line" : term == 2 ? "eof_newline" : "eof_no_newline";
		p["yaml"] = yaml;
		// ---- operations ----
		Json ops = Json::array();
		int nops = (int)w.range(1, tier == "thorough" ? 30 : 20);
		std::vector<std::string> keys = used;
		int next_new = nkeys;
		for (int n = 0; n < nops; n++) {
			Json o = Json::object();
			unsigned k = (unsigned)w.below(100);
			if (k < 14) o["k"] = "HAS";
			else if (k < 28) o["k"] = "KEYS";
			else if (k < 50) {
				o["k"] = "VALUE";
				if (!keys.empty() && w.chance(5, 6)) {
					// query by a random spelling of a key that exists
					size_t which = (size_t)w.below(keys.size());
					std::string base;
					for (int i = 0; i < NKEYWORDS; i++) if (norm_key(KEYWORDS[i]) == keys[which]) base = KEYWORDS[i];
					o["key"] = spell_key(w, base);
					if (w.chance(1, 4)) o["key"] = blanks(w, 0, 2) + o.gets("key") + blanks(w, 0, 2);      // the caller's spelling may carry blanks around the key too
				} else o["key"] = "No Such Key";
			}
			else if (k < 68 && !keys.empty()) {
				size_t which = w.chance(1, 3) ? keys.size() - 1 : w.chance(1, 3) ? 0 : (size_t)w.below(keys.size());
				std::string base;
				for (int i = 0; i < NKEYWORDS; i++) if (norm_key(KEYWORDS[i]) == keys[which]) base = KEYWORDS[i];
				std::string nv;
				o["k"] = "UPDATE"; o["key"] = spell_key(w, base); o["value"] = gen_value_text(w, w.chance(1, 4), &nv, "\n");
			}
			else if (k < 80 && next_new < NKEYWORDS && keys.size() < 9) {
				std::string base = KEYWORDS[order[(size_t)next_new++]];
				bool dup = false; for (auto & u : keys) if (u == norm_key(base)) dup = true;
				if (dup) continue;
				if (keys.empty() && isdigit((unsigned char)base[0]) && base.size() > 2 && base[1] == '.' && base[2] == ' ') continue;      // it would become the first line
				std::string nv;
				o["k"] = "ADD"; o["key"] = base; o["value"] = gen_value_text(w, false, &nv, "\n");
				keys.push_back(norm_key(base));
			}
			else if (k < 86) o["k"] = "RENDER";
			else if (k < 88) {
				// the command line tool: -m lists keys, -e KEY extracts a value (src/main.c is one of the property's anchors)
				if (!keys.empty() && w.chance(1, 2)) {
					size_t which = (size_t)w.below(keys.size());
					std::string base;
					for (int i = 0; i < NKEYWORDS; i++) if (norm_key(KEYWORDS[i]) == keys[which]) base = KEYWORDS[i];
					o["k"] = "CLI_VALUE"; o["key"] = spell_key(w, base);
				} else o["k"] = "CLI_KEYS";
			}
			else if (k < 94) o["k"] = "E_PARSE";
			else o["k"] = "E_CONVERT";
			if (!o.has("k")) continue;
			ops.push(o);
		}
		p["ops"] = ops;
		return p;
	}

	// ---- client wrappers ----
	struct Client {
		std::string kind;
		std::string s;            // S: the current string
		DString * d = nullptr;    // D
		mmd_engine * e = nullptr; // E (owns its DString)
		std::string text() const { if (kind == "S") return s; DString * x = kind == "D" ? d : e->dstr; return std::string(x->str, x->currentStringLength); }
		bool has(size_t * end) {
			if (kind == "S") { std::string c = s; return IN_LIB(mmd_string_has_metadata(&c[0], end)); }
			if (kind == "D") return IN_LIB(mmd_d_string_has_metadata(d, end));
			return IN_LIB(mmd_engine_has_metadata(e, end));
		}
		bool keys(std::string * out) {
			char * r;
			if (kind == "S") { std::string c = s; r = IN_LIB(mmd_string_metadata_keys(&c[0])); }
			else if (kind == "D") r = IN_LIB(mmd_d_string_metadata_keys(d));
			else r = IN_LIB(mmd_engine_metadata_keys(e));
			if (!r) return false;
			*out = r; free(r); return true;
		}
		bool value(const std::string & key, std::string * out) {
			if (kind == "E") { char * r = IN_LIB(mmd_engine_metavalue_for_key(e, key.c_str())); if (!r) return false; *out = r; return true; }
			char * r;
			if (kind == "S") { std::string c = s; r = IN_LIB(mmd_string_metavalue_for_key(&c[0], key.c_str())); }
			else r = IN_LIB(mmd_d_string_metavalue_for_key(d, key.c_str()));
			if (!r) return false;
			*out = r; free(r); return true;
		}
		void update(const std::string & key, const std::string & val) {
			if (kind == "S") { char * r = IN_LIB(mmd_string_update_metavalue_for_key(s.c_str(), key.c_str(), val.c_str())); s = r ? r : ""; free(r); }
			else if (kind == "D") IN_LIB_V(mmd_d_string_update_metavalue_for_key(d, key.c_str(), val.c_str()));
			else IN_LIB_V(mmd_engine_update_metavalue_for_key(e, key.c_str(), val.c_str()));
		}
	};

	static std::string build_doc(const Json & plan) {
		std::string eol = plan.gets("eol", "\n"), d;
		const Json & L = plan.at("lines");
		if (L.size() == 0) return plan.gets("tail");
		if (plan.getb("yaml")) d += "---" + eol;
		for (auto & l : L.a) d += l.gets("raw");
		if (plan.getb("yaml")) d += "---" + eol;
		if (plan.gets("term") == "eof_no_newline" && d.size() >= eol.size()) d.resize(d.size() - eol.size());
		return d + plan.gets("tail");
	}
	static std::string model_keys(const std::vector<std::pair<std::string, std::string>> & m) { std::string r; for (auto & kv : m) r += kv.first + "\n"; return r; }

	Json execute(const Json & plan, bool verbose) override {
		const Json & kn = plan.at("knobs");
		mmd6_verif_dstring_start = (size_t)std::max<int64_t>(1, kn.geti("dstring_start", 1024));
		mmd6_verif_pool_objects = (size_t)std::max<int64_t>(1, kn.geti("slab_objects", 1024));
		PoolBracket pb;
		std::vector<std::pair<std::string, std::string>> M;
		for (auto & l : plan.at("lines").a) M.emplace_back(l.gets("k"), l.gets("v"));
		std::string tail = plan.gets("tail");
		std::string doc = build_doc(plan);
		Client c;
		c.kind = plan.gets("client", "S");
		if (c.kind == "S") c.s = doc;
		else if (c.kind == "D") c.d = IN_LIB(d_string_new(doc.c_str()));
		else c.e = IN_LIB(mmd_engine_create_with_string(doc.c_str(), 0));
		Json res = Json::object(), viol;
		std::map<std::string, int64_t> probes;
		std::set<std::string> st;
		const Json & ops = plan.at("ops");
		int64_t executed = 0;
		std::string prev = "-";
		bool updated = false, query_after_update = false;
		int has_calls = 0, updates = 0;
		auto fail = [&](size_t k, const std::string & clause, const std::string & cls, const std::string & detail) {
			if (!viol.is_null()) return;
			viol = Json::object(); viol["clause"] = clause; viol["class"] = cls; viol["detail"] = detail; viol["op"] = (int64_t)k;
			if (verbose) viol["text"] = c.text().substr(0, 600);
		};
		// checks shared by several operations
		auto check_has = [&](size_t k, const std::string & cls) {
			size_t end = 12345;
			bool h = c.has(&end);
			std::string t = c.text();
			if (M.empty()) { if (h || end != 0) fail(k, "has_metadata_wrong", cls, "document without metadata: has=" + std::to_string(h) + " end=" + std::to_string(end)); return; }
			if (!h) { fail(k, "has_metadata_wrong", cls, "metadata block not recognised"); return; }
			if (end > t.size() || t.substr(end) != tail) fail(k, "end_offset_wrong", cls, "end=" + std::to_string(end) + " of " + std::to_string(t.size()) + ": text after it is " + Json(t.substr(std::min(end, t.size()), 40)).dump() + ", expected the unchanged tail " + Json(tail.substr(0, 40)).dump());
		};
		auto check_keys = [&](size_t k, const std::string & cls) {
			std::string got;
			bool ok = c.keys(&got);
			if (M.empty()) { if (ok && !got.empty()) fail(k, "keys_wrong", cls, "keys listed for a document without metadata: " + Json(got).dump()); return; }
			if (!ok) { fail(k, "keys_wrong", cls, "no keys returned"); return; }
			if (got != model_keys(M)) fail(k, "keys_wrong", cls, "got " + Json(got).dump() + " want " + Json(model_keys(M)).dump());
		};
		auto check_value = [&](size_t k, const std::string & cls, const std::string & spelling) {
			std::string got, nk = norm_key(spelling);
			bool ok = c.value(spelling, &got);
			const std::string * want = nullptr;
			for (auto & kv : M) if (kv.first == nk) want = &kv.second;
			if (!want) { if (ok) fail(k, "value_wrong", cls, "value " + Json(got).dump() + " returned for a key that does not exist"); return; }
			if (!ok) { fail(k, "value_wrong", cls, "no value for key " + nk); return; }
			if (got != *want) fail(k, "value_wrong", cls, "key " + nk + ": got " + Json(got).dump() + " want " + Json(*want).dump());
		};
		// a fresh engine's view of the current text must agree with the model too
		auto check_fresh = [&](size_t k, const std::string & cls) {
			std::string t = c.text();
			std::string copy = t;
			char * r = IN_LIB(mmd_string_metadata_keys(&copy[0]));
			std::string got = r ? r : "";
			free(r);
			if (got != model_keys(M)) { fail(k, "text_disagrees_with_model", cls, "keys re-read from the text: " + Json(got).dump() + " want " + Json(model_keys(M)).dump()); return; }
			for (auto & kv : M) {
				copy = t;
				char * v = IN_LIB(mmd_string_metavalue_for_key(&copy[0], kv.first.c_str()));
				std::string gv = v ? v : "<null>";
				free(v);
				if (gv != kv.second) { fail(k, "text_disagrees_with_model", cls, "key " + kv.first + " re-read from the text: " + Json(gv).dump() + " want " + Json(kv.second).dump()); return; }
			}
			size_t end = 0;
			copy = t;
			bool h = IN_LIB(mmd_string_has_metadata(&copy[0], &end));
			if (!M.empty() && (!h || end > t.size() || t.substr(end) != tail)) fail(k, "body_changed", cls, "text after the metadata block is " + Json(t.substr(std::min(end, t.size()), 40)).dump() + ", expected the unchanged tail " + Json(tail.substr(0, 40)).dump());
		};

		for (size_t k = 0; k < ops.size() && viol.is_null(); k++) {
			const Json & op = ops[k];
			std::string kind = op.gets("k");
			child_mark_op((int)k);
			st.insert(c.kind + "/" + kind + "<" + prev + "/" + plan.gets("term") + (plan.getb("yaml") ? "/yaml" : "") + "/n" + std::to_string(std::min<size_t>(M.size(), 3)));
			if (kind == "HAS") {
				check_has(k, kind);
				if (c.kind == "E" && ++has_calls >= 2) probes["has_metadata_twice_same_engine"]++;
				if (plan.gets("term") == "eof_no_newline") probes["block_ends_at_eof_no_newline"]++;
			} else if (kind == "KEYS") check_keys(k, kind);
			else if (kind == "VALUE") check_value(k, kind, op.gets("key"));
			else if (kind == "UPDATE" || kind == "ADD") {
				std::string key = op.gets("key"), val = op.gets("value"), nk = norm_key(key);
				bool exists = false;
				size_t idx = 0;
				for (size_t i = 0; i < M.size(); i++) if (M[i].first == nk) { exists = true; idx = i; }
				bool was_empty = M.empty();
				if (exists) {
					M[idx].second = norm_val(val);
					if (idx == M.size() - 1) probes["update_last_key"]++;
					if (idx == 0) probes["update_first_key"]++;
					if (val.find('\n') != std::string::npos) probes["update_multiline_value"]++;
				} else {
					M.emplace_back(nk, norm_val(val));
					if (was_empty) probes["add_to_doc_without_metadata"]++;
				}
				uint64_t moved0 = g_sim.realloc_moved;
				c.update(key, val);
				if (g_sim.realloc_moved > moved0) probes["dstring_realloc_moved"]++;
				if (was_empty) tail = "\n" + tail;      // "key:\tvalue\n" + blank line + the old document
				if (c.kind == "E" && ++updates >= 2) probes["update_after_update_same_engine"]++;
				updated = true;
				// read back through the same client, then through a fresh engine
				check_value(k, kind, key);
				for (auto & kv : M) if (viol.is_null()) check_value(k, kind, kv.first);
				if (viol.is_null()) check_keys(k, kind);
				if (viol.is_null()) check_has(k, kind);
				if (viol.is_null()) check_fresh(k, kind);
			} else if (kind == "RENDER") {
				std::string t = c.text();
				char * r = IN_LIB(mmd_string_convert(t.c_str(), X_COMPLETE_BITS(), 0, 0));
				std::string html = r ? r : "";
				free(r);
				for (auto & kv : M) {
					std::string want = kv.first == "title" ? "\t<title>" + html_esc(kv.second) + "</title>\n" : "\t<meta name=\"" + html_esc(kv.first) + "\" content=\"" + html_esc(kv.second) + "\"/>\n";
					if (kv.first == "htmlheader" || kv.first == "xhtmlheader") want = kv.second + "\n";      // copied into <head> verbatim
					else if (is_special(kv.first)) continue;
					if (html.find(want) == std::string::npos) { fail(k, "complete_output_lacks_value", kind, "expected " + Json(want).dump() + " in the HTML head"); break; }
				}
			} else if (kind == "CLI_KEYS" || kind == "CLI_VALUE") {
				// multimarkdown -m FILE / multimarkdown -e KEY FILE on the client's current text, stdout captured
				SimFile f; f.versions.push_back(c.text());
				g_sim.files["/sim/m/doc.txt"] = f;
				std::vector<std::string> args = {"multimarkdown"};
				if (kind == "CLI_KEYS") args.push_back("-m"); else { args.push_back("-e"); args.push_back(op.gets("key")); }
				args.push_back("/sim/m/doc.txt");
				std::vector<char *> argv; for (auto & a2 : args) argv.push_back(&a2[0]); argv.push_back(nullptr);
				char * obuf = nullptr; size_t olen = 0;
				FILE * saved = stdout;
				FILE * ms = open_memstream(&obuf, &olen);
				stdout = ms;
				int rc = IN_LIB(mmd_cli_main((int)args.size(), argv.data()));
				fflush(ms); stdout = saved; fclose(ms);
				std::string got(obuf ? obuf : "", olen);
				free(obuf);
				probes["cli_queries"]++;
				if (kind == "CLI_KEYS") {
					if (got != model_keys(M)) fail(k, "keys_wrong", kind, "multimarkdown -m printed " + Json(got).dump() + " want " + Json(model_keys(M)).dump() + " (rc " + std::to_string(rc) + ")");
				} else {
					std::string nk = norm_key(op.gets("key")), want;
					for (auto & kv : M) if (kv.first == nk) want = kv.second + "\n";
					if (got != want) fail(k, "value_wrong", kind, "multimarkdown -e " + nk + " printed " + Json(got).dump() + " want " + Json(want).dump());
				}
			} else if (kind == "E_PARSE") { if (c.kind == "E") IN_LIB_V(mmd_engine_parse_string(c.e)); }
			else if (kind == "E_CONVERT") { if (c.kind == "E") { char * r = IN_LIB(mmd_engine_convert(c.e, 0)); free(r); } }
			if (updated && (kind == "HAS" || kind == "KEYS" || kind == "VALUE" || kind == "RENDER" || kind == "CLI_KEYS" || kind == "CLI_VALUE")) query_after_update = true;
			g_log.ev("op", kind + ":" + digest(c.text()));
			prev = kind;
			executed++;
		}
		if (c.d) IN_LIB_V(d_string_free(c.d, true));
		if (c.e) IN_LIB_V(mmd_engine_free(c.e, true));
		res["violation"] = viol;
		res["ops_executed"] = executed;
		Json pj = Json::object(); for (auto & kv : probes) pj[kv.first] = kv.second; res["probes"] = pj;
		Json sj = Json::array(); for (auto & x : st) sj.push(x); res["states"] = sj;
		Json ex = Json::object(); ex["query_after_update"] = query_after_update; res["extra"] = ex;
		return res;
	}
	static unsigned long X_COMPLETE_BITS() { return (1 << 1) | (1 << 3) | (1 << 4) | (1 << 9); }   // complete + smart + notes + critic (CLI -f)
	static bool is_special(const std::string & k) {
		static const char * sp[] = {"baseheaderlevel", "bibliostyle", "bibtex", "css", "htmlfooter", "htmlheader", "htmlheaderlevel", "language", "latexbegin", "latexconfig", "latexfooter", "latexheader",
									"latexheaderlevel", "latexinput", "latexleader", "latexmode", "mmdfooter", "mmdheader", "odfheader", "quoteslanguage", "transcludebase", "xhtmlheader", "xhtmlheaderlevel"};
		for (auto s : sp) if (k == s) return true;
		return false;
	}

	Json judge(const Json &, const ChildOutcome & out, Ctx &) override {
		if (out.status != "finished") return Json();
		return out.result.at("violation");
	}
	// after the shrinker dropped lines: a key that starts like an enumerated list item must not become the first line (there the line IS a list item)
	bool fixup(Json & plan) override {
		Json & lines = plan["lines"];
		while (lines.size()) {
			std::string k = lines[(size_t)0].gets("k");
			if (k.size() > 1 && isdigit((unsigned char)k[0]) && k[1] == '.') lines.a.erase(lines.a.begin()); else break;
		}
		return plan.at("ops").size() > 0;
	}
	// a crash: does the first query of a fresh client fail on this document too? then it is input-level (C01), not history
	Json isolate(const Json & plan, int) override {
		Json p = plan;
		Json ops = Json::array();
		for (const char * k : {"HAS", "KEYS"}) { Json o = Json::object(); o["k"] = k; ops.push(o); }
		p["ops"] = ops;
		return p;
	}
	bool nontrivial(const Json & plan, const Json & result) override {
		return plan.at("ops").size() >= 2 && result.at("extra").getb("query_after_update");
	}
	std::vector<Json> simplify(const Json & plan) override {
		std::vector<Json> c;
		const Json & kn = plan.at("knobs");
		if (kn.geti("dstring_start") != 1024) { Json p = plan; p["knobs"]["dstring_start"] = 1024; c.push_back(p); }
		if (kn.geti("slab_objects") != 1024) { Json p = plan; p["knobs"]["slab_objects"] = 1024; c.push_back(p); }
		if (plan.gets("client") != "S") { Json p = plan; p["client"] = "S"; c.push_back(p); }
		if (plan.getb("yaml")) { Json p = plan; p["yaml"] = false; c.push_back(p); }
		if (plan.gets("eol") == "\r\n") {
			Json p = plan; p["eol"] = "\n";
			for (auto & l : p["lines"].a) { std::string r = l.gets("raw"), t; for (size_t i = 0; i < r.size(); i++) if (!(r[i] == '\r' && i + 1 < r.size() && r[i + 1] == '\n')) t.push_back(r[i]); l["raw"] = t; }
			std::string r = plan.gets("tail"), t; for (size_t i = 0; i < r.size(); i++) if (!(r[i] == '\r' && i + 1 < r.size() && r[i + 1] == '\n')) t.push_back(r[i]); p["tail"] = t;
			c.push_back(p);
		}
		for (size_t i = 0; i < plan.at("lines").size() && plan.at("lines").size() > 1; i++) { Json p = plan; p["lines"].a.erase(p["lines"].a.begin() + (long)i); c.push_back(p); }
		if (plan.gets("tail").size() > 2 && plan.at("lines").size()) { Json p = plan; p["tail"] = plan.gets("eol") + "b" + plan.gets("eol"); c.push_back(p); }
		const Json & ops = plan.at("ops");
		for (size_t k = 0; k < ops.size(); k++) {
			if (ops[k].has("value") && ops[k].gets("value").size() > 1) { Json p = plan; p["ops"][k]["value"] = "v"; c.push_back(p); }
		}
		return c;
	}
	Json sample(const Json & plan) override {
		Json s = Json::object();
		s["client"] = plan.at("client"); s["doc"] = build_doc(plan);
		Json m = Json::array(); for (auto & l : plan.at("lines").a) { Json kv = Json::array(); kv.push(l.at("k")); kv.push(l.at("v")); m.push(kv); } s["model"] = m;
		Json ops = Json::array();
		for (auto & o : plan.at("ops").a) ops.push(o.gets("k") + (o.has("key") ? "(" + o.gets("key") + (o.has("value") ? "=" + o.gets("value") : "") + ")" : ""));
		s["ops"] = ops;
		return s;
	}
};
EngineReg reg(new MetaEngine());
}
#endif
