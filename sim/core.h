// Core of the deterministic simulator: PRNG discipline, event log, engine interface,
// simulated environment state.  See /verif/DESIGN.md section 3.
#pragma once
#include <cstdint>
#include <cstddef>
#include <functional>
#include <map>
#include <set>
#include <string>
#include <vector>
#include "json.h"

// ---------------------------------------------------------------- hashing / prng
static inline uint64_t fnv1a(const void * p, size_t n, uint64_t h = 1469598103934665603ULL) {
	const unsigned char * c = (const unsigned char *)p;
	for (size_t i = 0; i < n; i++) { h ^= c[i]; h *= 1099511628211ULL; }
	return h;
}
static inline uint64_t fnv_str(const std::string & s, uint64_t h = 1469598103934665603ULL) { return fnv1a(s.data(), s.size(), h); }
static inline uint64_t splitmix64(uint64_t & x) {
	uint64_t z = (x += 0x9e3779b97f4a7c15ULL);
	z = (z ^ (z >> 30)) * 0xbf58476d1ce4e5b9ULL;
	z = (z ^ (z >> 27)) * 0x94d049bb133111ebULL;
	return z ^ (z >> 31);
}
static inline uint64_t mix2(uint64_t a, uint64_t b) { uint64_t x = a ^ (b * 0x9e3779b97f4a7c15ULL + 0x7f4a7c15ULL); splitmix64(x); return splitmix64(x); }

struct Rng {
	uint64_t s[4];
	explicit Rng(uint64_t seed = 1) { uint64_t x = seed; for (auto & v : s) v = splitmix64(x); }
	static inline uint64_t rotl(uint64_t x, int k) { return (x << k) | (x >> (64 - k)); }
	uint64_t next() {
		uint64_t r = rotl(s[1] * 5, 7) * 9, t = s[1] << 17;
		s[2] ^= s[0]; s[3] ^= s[1]; s[1] ^= s[2]; s[0] ^= s[3]; s[2] ^= t; s[3] = rotl(s[3], 45);
		return r;
	}
	uint64_t below(uint64_t n) { return n ? next() % n : 0; }
	int64_t range(int64_t lo, int64_t hi) { return lo + (int64_t)below((uint64_t)(hi - lo + 1)); }   // inclusive
	bool chance(unsigned num, unsigned den) { return below(den) < num; }
	template <class T> const T & pick(const std::vector<T> & v) { return v[below(v.size())]; }
};
// independent sub-streams: adding a draw in one component does not shift the others
static inline Rng substream(uint64_t run_seed, const char * tag) { return Rng(mix2(run_seed, fnv1a(tag, strlen(tag)))); }

static inline std::string hex64(uint64_t v) { char b[24]; snprintf(b, sizeof b, "%016llx", (unsigned long long)v); return b; }

// ---------------------------------------------------------------- event log
// One record per operation / seam event / fired fault / scheduling decision; its running
// FNV-1a hash is the identity of a run.  Never fed from clocks, pids or pointer values.
struct EventLog {
	uint64_t h = 1469598103934665603ULL;
	uint64_t n = 0;
	void ev(const char * kind, const std::string & detail) { h = fnv1a(kind, strlen(kind), h); h = fnv1a("|", 1, h); h = fnv_str(detail, h); h = fnv1a("\n", 1, h); n++; }
	void ev(const char * kind, uint64_t a, uint64_t b = 0) { char buf[64]; snprintf(buf, sizeof buf, "%llu,%llu", (unsigned long long)a, (unsigned long long)b); ev(kind, buf); }
};
extern EventLog g_log;

// ---------------------------------------------------------------- simulated environment
struct SimFault {         // attached to a path and to the n-th open of that path (1-based; 0 = every open)
	std::string kind;     // open_fail | read_error | isdir
	int nth = 0;
	int err = 0;          // errno for open_fail / read_error
	long k = 0;           // bytes delivered before a read error
};
struct SimFile {
	std::vector<std::string> versions;   // content per open (last one repeats)
	bool is_dir = false;
	std::vector<SimFault> faults;
	int opens = 0;
	std::string written;                 // last content written through the seam
};
struct OpenRecord { std::string path; int nth; bool ok; int err; std::string delivered; bool complete; bool writing = false; };

struct Sim {
	// gating
	bool active = false;      // seams active (child only)
	int in_lib = 0;           // >0 while the harness is inside a library call
	// clock
	int64_t clock_now = 1700000000;
	int64_t clock_start = 1700000000;   // the value the current operation's environment started from
	int64_t clock_step = 0;   // added after every time() call (jump inside one operation)
	uint64_t time_calls = 0, clock_calls = 0, localtime_calls = 0;
	// libc PRNG stub
	uint64_t rand_state = 1;
	uint64_t rand_draws = 0, srand_calls = 0;
	// allocator
	int realloc_mode = 0;     // 0 = libc decides, 1 = always move, 2 = (libc) in place when possible
	int64_t open_read_streams = 0;   // simulated files opened for reading and not closed yet
	uint64_t garbage_fills = 0;
	int malloc_fill = 0;      // 1 = every block the library obtains from malloc (and every tail a realloc adds) is filled with garbage that depends on how many
	                          //     allocations the process has made so far: what real allocators do when they hand a freed chunk out again.  Output that depends on
	                          //     memory the library never initialised then depends on history - and differs from the fresh-process reference
	uint64_t mallocs = 0, reallocs = 0, realloc_moved = 0, frees = 0;
	bool track_blocks = false;
	struct Block { size_t n; int tag; };
	std::map<void *, Block> * blocks = nullptr;    // live blocks allocated inside library calls
	int alloc_tag = 0;                             // attribution tag given to new blocks (realloc inherits the old block's tag)
	uintptr_t range_lo = 0, range_hi = 0;          // blocks allocated by code in this text range get range_tag instead
	int range_tag = 0;
	// file system
	std::map<std::string, SimFile> files;
	std::vector<OpenRecord> open_log;
	uint64_t fopen_calls = 0, fopen_cap = 0;  // cap 0 = none; exceeding ends the child with EXIT_STEPCAP
	uint64_t bytes_cap = 0, bytes_delivered = 0;
	std::string cwd = "/sim";
	// fault accounting (fired, not configured)
	std::map<std::string, uint64_t> fired;
	std::map<std::string, uint64_t> probes;
	// exit trap
	int exit_code = -1;
};
extern Sim g_sim;

struct LibScope { LibScope() { g_sim.in_lib++; } ~LibScope() { g_sim.in_lib--; } };
#define IN_LIB(expr) ([&]() { LibScope _ls; return (expr); }())
#define IN_LIB_V(stmt) do { LibScope _ls; stmt; } while (0)

// knobs behind the two guarded hooks in /repo (H1, H2)
extern "C" { extern size_t mmd6_verif_dstring_start; extern size_t mmd6_verif_pool_objects; }

// exit codes of a run-child
enum { EXIT_OK = 0, EXIT_ASAN = 77, EXIT_LIBEXIT = 78, EXIT_STEPCAP = 79, EXIT_HARNESS = 80 };

// ---------------------------------------------------------------- engine interface
struct ChildOutcome {
	std::string status;     // finished | asan | ubsan | lib_exit | stepcap | signal | timeout | harness
	int sig = 0;
	int last_op = -1;       // index of the operation that was running when the child died
	Json result;            // RESULT record (null if the child died)
	std::string stderr_head;
};

struct Ctx {                // services the worker gives to an engine's judge()
	std::function<ChildOutcome(const Json & plan, bool verbose)> run_child;   // fresh child of the pristine zygote
	std::function<ChildOutcome(const Json & plan)> run_ref;                   // memoised by plan hash
	uint64_t refs_run = 0, refs_memo = 0;
};

struct Engine {
	virtual ~Engine() {}
	virtual const char * name() const = 0;
	virtual const char * property() const = 0;
	// pure function of run_seed (and tier): explicit operations with attached faults, knobs, environment
	virtual Json plan(uint64_t run_seed, const std::string & tier) = 0;
	// runs in the child: consumes only the plan. verbose => include full outputs in the result
	virtual Json execute(const Json & plan, bool verbose) = 0;
	// runs in the worker: null => property held on this run; else {clause, detail, op?}
	virtual Json judge(const Json & plan, const ChildOutcome & out, Ctx & ctx) = 0;
	// watchdog in executed basic-block edges of the library (variants A/B) when the plan names none: far above any
	// legitimate run, so that an input-level endless loop ends deterministically as "stepcap" instead of a wall-clock timeout
	virtual uint64_t default_step_cap() const { return 1500000000ULL; }
	// worker-side step before a plan is executed: may add derived data (e.g. a step cap computed from reference runs)
	virtual void prepare(Json & plan, Ctx & ctx) { (void)plan; (void)ctx; }
	// plan that performs operation k "first in a fresh process" (attribution of crashes, references)
	virtual Json isolate(const Json & plan, int k) { (void)plan; (void)k; return Json(); }
	// true: a sanitizer report / crash anywhere is a violation of this property (no input-level carve-out)
	virtual bool crash_in_scope() const { return false; }
	// engine specific simplifications tried after ddmin over plan["ops"]
	virtual std::vector<Json> simplify(const Json & plan) { (void)plan; return {}; }
	// repair references between ops after ops were deleted; return false if the plan became meaningless
	virtual bool fixup(Json & plan) { (void)plan; return true; }
	virtual bool nontrivial(const Json & plan, const Json & result) = 0;
	virtual std::string rule() const = 0;
	// short printable form of a plan for evidence samples
	virtual Json sample(const Json & plan) { return plan; }
};

Engine * engine_by_name(const std::string & n);
void register_engine(Engine * e);
struct EngineReg { EngineReg(Engine * e) { register_engine(e); } };

// helpers for children
void child_mark_op(int k);                 // tells the worker which operation is running
std::string digest(const std::string & bytes);   // "len:hash"
Json env_to_json();                        // seam counters for the result record

// simulated FS helpers (seams)
void simfs_reset();
void simfs_load(const Json & world);       // {"files": {path: {"versions":[...], "dir":bool, "faults":[...]}}}
std::string simfs_normalize(const std::string & path, bool * too_long = nullptr);
