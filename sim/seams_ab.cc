// Link-time seams for build variants A and B (-Wl,--wrap=...), and the simulated file
// system (fopencookie streams under the virtual root /sim).  Variant T interposes the same
// functions from seams_t.cc instead.
#if defined(VARIANT_A) || defined(VARIANT_B)
#ifndef _GNU_SOURCE
#define _GNU_SOURCE
#endif
#include <errno.h>
#include <stdio.h>
#include <stdlib.h>
#include <string.h>
#include <time.h>
#include <unistd.h>
#include <sys/stat.h>
#include <sys/types.h>
#include "core.h"
#include "simfs.h"

// stat() on a simulated path: what a change needs that starts to size or date a file before reading it (miniz's add_file does)
template <class ST> static int sim_stat(const char * path, ST * st) {
	std::string norm = simfs_normalize(path);
	bool isd = false;
	if (!simfs_exists(norm, &isd)) { errno = ENOENT; return -1; }
	memset(st, 0, sizeof *st);
	st->st_mode = isd ? (S_IFDIR | 0755) : (S_IFREG | 0644);
	st->st_nlink = 1;
	auto it = g_sim.files.find(norm);
	if (!isd && it != g_sim.files.end() && !it->second.versions.empty()) st->st_size = (off_t)it->second.versions[0].size();
	st->st_mtime = (time_t)g_sim.clock_now;
	return 0;
}

extern "C" {
	size_t mmd6_verif_dstring_start = 1024;
	size_t mmd6_verif_pool_objects = 1024;

	FILE * __real_fopen(const char *, const char *);
	FILE * __real_fopen64(const char *, const char *);
	time_t __real_time(time_t *);
	clock_t __real_clock(void);
	struct tm * __real_localtime(const time_t *);
	void __real_exit(int) __attribute__((noreturn));
	void * __real_malloc(size_t);
	void * __real_calloc(size_t, size_t);
	void * __real_realloc(void *, size_t);
	void __real_free(void *);
	char * __real_realpath(const char *, char *);
	int __real_mkdir(const char *, mode_t);
	int __real_stat(const char *, struct stat *);
	int __real_stat64(const char *, struct stat64 *);
	int __real_chdir(const char *);
	char * __real_getcwd(char *, size_t);
	size_t __sanitizer_get_allocated_size(const volatile void *);

	// ASan exit code 77 so a sanitizer report can be told from anything else; no leak noise.
	__attribute__((used, visibility("default"))) const char * __asan_default_options() {
		return "exitcode=77:detect_leaks=0:abort_on_error=0:allocator_may_return_null=1:detect_stack_use_after_return=0:handle_segv=1";
	}
	__attribute__((used, visibility("default"))) const char * __ubsan_default_options() {
		return "print_stacktrace=1:halt_on_error=1:exitcode=77";
	}

	FILE * __wrap_fopen(const char * path, const char * mode) {
		if (g_sim.active && path && simfs_is_sim_path(path)) return simfs_fopen(path, mode);
		return __real_fopen(path, mode);
	}
	FILE * __wrap_fopen64(const char * path, const char * mode) {
		if (g_sim.active && path && simfs_is_sim_path(path)) return simfs_fopen(path, mode);
		return __real_fopen64(path, mode);
	}
	time_t __wrap_time(time_t * t) {
		if (!g_sim.active) return __real_time(t);
		g_sim.time_calls++;
		time_t v = (time_t)g_sim.clock_now;
		g_sim.clock_now += g_sim.clock_step;
		// the simulated clock normally stays inside [1980-01-01, 2107-12-31], the range the DOS date field of a zip member can express; one
		// environment in ten starts outside it (a machine without a clock, a far future): there it may move within [1970-01-01, 2112]
		bool outside = g_sim.clock_start < 315532800LL || g_sim.clock_start > 4354819199LL;
		int64_t lo = outside ? 0 : 315532800LL, hi = outside ? 4500000000LL : 4354819199LL;
		if (g_sim.clock_now < lo) g_sim.clock_now = lo;
		if (g_sim.clock_now > hi) g_sim.clock_now = hi;
		if (g_sim.clock_step) g_sim.fired["clock_jump_inside_op"]++;
		g_log.ev("time", (uint64_t)v);
		if (t) *t = v;
		return v;
	}
	clock_t __wrap_clock(void) {
		if (!g_sim.active) return __real_clock();
		g_sim.clock_calls++;
		g_log.ev("clock", g_sim.clock_calls);
		return (clock_t)(1000 * g_sim.clock_calls);
	}
	struct tm * __wrap_localtime(const time_t * t) {
		if (g_sim.active) { g_sim.localtime_calls++; g_log.ev("localtime", (uint64_t)*t); }
		return __real_localtime(t);   // TZ=UTC is set by the harness
	}
	int __wrap_rand(void) {
		if (!g_sim.active) { static unsigned s = 1; s = s * 1103515245u + 12345u; return (int)((s >> 1) & 0x7fffffff); }
		g_sim.rand_draws++;
		uint64_t x = g_sim.rand_state;
		uint64_t z = splitmix64(x);
		g_sim.rand_state = x;
		int v = (int)(z >> 33);
		g_log.ev("rand", (uint64_t)v);
		return v;
	}
	void __wrap_srand(unsigned seed) {
		if (!g_sim.active) return;
		g_sim.srand_calls++;
		g_sim.rand_state = 0x5eed0000ULL + seed;
		g_log.ev("srand", seed);
	}
	void __wrap_exit(int code) {
		if (g_sim.active && g_sim.in_lib > 0) {
			g_sim.exit_code = code;
			char buf[64];
			int n = snprintf(buf, sizeof buf, "LIBEXIT %d\n", code);
			if (write(3, buf, n)) {}
			_exit(EXIT_LIBEXIT);
		}
		__real_exit(code);
	}
	static void garbage_fill(void * p, size_t n) {
		// deterministic for a given history (replay reproduces it), different for a different history
		uint64_t x = 0x9e3779b97f4a7c15ULL * (g_sim.mallocs + 1) + 0x6a09e667f3bcc909ULL;
		unsigned char * b = (unsigned char *)p;
		if (n > (1u << 20)) n = 1u << 20;
		size_t i = 0;
		for (; i + 8 <= n; i += 8) { uint64_t z = splitmix64(x); memcpy(b + i, &z, 8); }
		if (i < n) { uint64_t z = splitmix64(x); memcpy(b + i, &z, n - i); }
		g_sim.garbage_fills++;
	}
	void * __wrap_malloc(size_t n) {
		void * p = __real_malloc(n);
		if (g_sim.active && g_sim.in_lib > 0) {
			g_sim.mallocs++;
			if (g_sim.malloc_fill && p && n) garbage_fill(p, n);
			if (g_sim.track_blocks && g_sim.blocks && p) {
				uintptr_t ra = (uintptr_t)__builtin_return_address(0);
				int tag = (ra >= g_sim.range_lo && ra < g_sim.range_hi) ? g_sim.range_tag : g_sim.alloc_tag;
				int s = g_sim.in_lib; g_sim.in_lib = 0; (*g_sim.blocks)[p] = Sim::Block{n, tag}; g_sim.in_lib = s;
			}
		}
		return p;
	}
	void * __wrap_calloc(size_t a, size_t b) {
		void * p = __real_calloc(a, b);
		if (g_sim.active && g_sim.in_lib > 0) {
			g_sim.mallocs++;
			if (g_sim.track_blocks && g_sim.blocks && p) { int s = g_sim.in_lib; g_sim.in_lib = 0; (*g_sim.blocks)[p] = Sim::Block{a * b, g_sim.alloc_tag}; g_sim.in_lib = s; }
		}
		return p;
	}
	void __wrap_free(void * p) {
		if (g_sim.active && p) {
			if (g_sim.in_lib > 0) g_sim.frees++;
			if (g_sim.track_blocks && g_sim.blocks) { int s = g_sim.in_lib; g_sim.in_lib = 0; g_sim.blocks->erase(p); g_sim.in_lib = s; }
		}
		__real_free(p);
	}
	void * __wrap_realloc(void * p, size_t n) {
		if (!(g_sim.active && g_sim.in_lib > 0)) {
			if (g_sim.active && g_sim.track_blocks && g_sim.blocks && p) g_sim.blocks->erase(p);
			return __real_realloc(p, n);
		}
		g_sim.reallocs++;
		void * q;
		if (g_sim.realloc_mode == 1 && p && n) {
			// buggify: the block always moves, so any pointer kept across a growth goes stale
			size_t old = __sanitizer_get_allocated_size(p);
			q = __real_malloc(n);
			if (q) { if (g_sim.malloc_fill && n > old) { g_sim.mallocs++; garbage_fill((char *)q + old, n - old); } memcpy(q, p, old < n ? old : n); __real_free(p); }
			g_sim.fired["realloc_moved_forced"]++;
		} else {
			size_t old = p ? __sanitizer_get_allocated_size(p) : 0;
			q = __real_realloc(p, n);
			if (g_sim.malloc_fill && q && n > old) { g_sim.mallocs++; garbage_fill((char *)q + old, n - old); }
		}
		if (q != p) g_sim.realloc_moved++;
		if (g_sim.track_blocks && g_sim.blocks) {
			int s = g_sim.in_lib; g_sim.in_lib = 0;
			int tag = g_sim.alloc_tag;
			if (p) { auto it = g_sim.blocks->find(p); if (it != g_sim.blocks->end()) { tag = it->second.tag; g_sim.blocks->erase(it); } }
			if (q) (*g_sim.blocks)[q] = Sim::Block{n, tag};
			g_sim.in_lib = s;
		}
		return q;
	}
	char * __wrap_realpath(const char * path, char * resolved) {
		if (g_sim.active && path && simfs_is_sim_path(path)) return simfs_realpath(path, resolved);
		return __real_realpath(path, resolved);
	}
	int __wrap_stat(const char * path, struct stat * st) {
		if (g_sim.active && path && st && simfs_is_sim_path(path)) return sim_stat(path, st);
		return __real_stat(path, st);
	}
	int __wrap_stat64(const char * path, struct stat64 * st) {
		if (g_sim.active && path && st && simfs_is_sim_path(path)) return sim_stat(path, st);
		return __real_stat64(path, st);
	}
	int __wrap_mkdir(const char * path, mode_t m) {
		if (g_sim.active && path && simfs_is_sim_path(path)) return simfs_mkdir(path);
		return __real_mkdir(path, m);
	}
	int __wrap_chdir(const char * path) {
		if (g_sim.active && path && simfs_is_sim_path(path)) return simfs_chdir(path);
		return __real_chdir(path);
	}
	char * __wrap_getcwd(char * buf, size_t n) {
		if (g_sim.active && g_sim.in_lib > 0) {
			if (!buf) return strdup(g_sim.cwd.c_str());
			if (g_sim.cwd.size() + 1 > n) { errno = ERANGE; return NULL; }
			strcpy(buf, g_sim.cwd.c_str());
			return buf;
		}
		return __real_getcwd(buf, n);
	}
}
#endif
