// Engine `dstr` (C19): histories of DString operations against an ideal string model,
// under allocator perturbation (realloc always moves) and the starting-capacity knob (H1).
#if defined(VARIANT_A) || defined(VARIANT_B)
#include <stdarg.h>
#include <stdio.h>
#include <string.h>
#include "core.h"
extern "C" {
#include "d_string.h"
	size_t __sanitizer_get_allocated_size(const volatile void *);
}

namespace {

const int64_t M1 = -1;      // (size_t)-1 in plans

struct Model { bool live = false; std::string s; size_t cap = 0; };

std::string cstr_of(const std::string & bytes) { size_t n = bytes.find('\0'); return n == std::string::npos ? bytes : bytes.substr(0, n); }

// printf patterns: id -> format and argument types
struct Pat { const char * fmt; const char * types; };   // types: s = string, d = int, c = char
const Pat PATS[] = {
	{"lit", ""}, {"%d", "d"}, {"%s", "s"}, {"%c", "c"}, {"%s=%d", "sd"}, {"%d%%%s", "ds"}, {"[%s|%s|%s]", "sss"}, {"%5d:%-4s;", "ds"}, {"", ""},
};
const int NPAT = sizeof(PATS) / sizeof(PATS[0]);

std::string fmt_apply(int pat, const Json & args) {
	char buf[4096];
	const Pat & p = PATS[pat % NPAT];
	std::string t = p.types;
	auto S = [&](int i) { return cstr_of(args.a.size() > (size_t)i ? args[i].s : std::string()); };
	auto D = [&](int i) { return (int)(args.a.size() > (size_t)i ? args[i].num() : 0); };
	int n = 0;
	if (t == "") n = snprintf(buf, sizeof buf, p.fmt, 0);
	else if (t == "d") n = snprintf(buf, sizeof buf, p.fmt, D(0));
	else if (t == "s") n = snprintf(buf, sizeof buf, p.fmt, S(0).c_str());
	else if (t == "c") n = snprintf(buf, sizeof buf, p.fmt, (char)D(0));
	else if (t == "sd") n = snprintf(buf, sizeof buf, p.fmt, S(0).c_str(), D(1));
	else if (t == "ds") n = snprintf(buf, sizeof buf, p.fmt, D(0), S(1).c_str());
	else if (t == "sss") n = snprintf(buf, sizeof buf, p.fmt, S(0).c_str(), S(1).c_str(), S(2).c_str());
	if (n < 0) n = 0;
	if ((size_t)n >= sizeof buf) n = sizeof buf - 1;
	return cstr_of(std::string(buf, (size_t)n));   // what a C-string consumer sees
}
void real_printf(DString * d, bool insert, size_t pos, int pat, const Json & args) {
	const Pat & p = PATS[pat % NPAT];
	std::string t = p.types;
	auto S = [&](int i) { return cstr_of(args.a.size() > (size_t)i ? args[i].s : std::string()); };
	auto D = [&](int i) { return (int)(args.a.size() > (size_t)i ? args[i].num() : 0); };
	std::string s0 = S(0), s1 = S(1), s2 = S(2);
	LibScope ls;
#define CALL(...) do { if (insert) d_string_insert_printf(d, pos, __VA_ARGS__); else d_string_append_printf(d, __VA_ARGS__); } while (0)
	if (t == "") CALL(p.fmt, 0);
	else if (t == "d") CALL(p.fmt, D(0));
	else if (t == "s") CALL(p.fmt, s0.c_str());
	else if (t == "c") CALL(p.fmt, (char)D(0));
	else if (t == "sd") CALL(p.fmt, s0.c_str(), D(1));
	else if (t == "ds") CALL(p.fmt, D(0), s1.c_str());
	else if (t == "sss") CALL(p.fmt, s0.c_str(), s1.c_str(), s2.c_str());
#undef CALL
}

// ---- the ideal string (DESIGN appendix A.4) ----
void m_insert(std::string & m, size_t pos, const std::string & what) { if (pos > m.size()) pos = m.size(); m.insert(pos, what); }
void m_erase(std::string & m, size_t pos, size_t len) {
	if (pos > m.size() || len == 0) return;
	if (len == (size_t)-1 || len >= m.size() - pos) m.erase(pos); else m.erase(pos, len);
}
long m_replace(std::string & m, size_t pos, size_t len, const std::string & orig, const std::string & repl) {
	// occurrences that start inside [pos, pos+len), left to right, non-overlapping, the range end moving with each replacement
	if (pos > m.size()) return 0;
	long stop = len == (size_t)-1 ? (long)m.size() : (long)std::min(m.size(), pos + len);
	long delta = 0, change = (long)repl.size() - (long)orig.size();
	size_t at = m.find(orig, pos);
	while (at != std::string::npos && (long)at < stop) {
		m.replace(at, orig.size(), repl);
		delta += change; stop += change;
		at = m.find(orig, at + repl.size());
	}
	return delta;
}
size_t predict_cap(size_t cap, size_t newlen) { while (newlen + 1 > cap) cap *= 2; return cap; }

bool g_repetitive = false;     // swarm: some runs draw repetitive text so that a pattern occurs many times
std::string rand_text(Rng & r, size_t n, bool allow_nul) {
	static const char alpha[] = "abcabcxyz01 ._-:&<>\"%\\\n\t";
	std::string s;
	if (g_repetitive && r.chance(2, 3)) {
		static const char * units[] = {"ab", "abc", "aab", "x", "abX"};
		const char * u = units[r.below(5)];
		while (s.size() < n) s += u;
		s.resize(n);
		return s;
	}
	for (size_t i = 0; i < n; i++) {
		unsigned k = (unsigned)r.below(40);
		if (k == 0 && allow_nul) s.push_back('\0');
		else if (k == 1) s += "\xc3\xa9";
		else s.push_back(alpha[r.below(sizeof(alpha) - 1)]);
	}
	if (s.size() > n && n > 0) s.resize(n);
	return s;
}

int64_t boundary_pos(Rng & r, size_t len, size_t cap) {
	switch (r.below(12)) {
		case 0: return 0;
		case 1: return len ? (int64_t)len - 1 : 0;
		case 2: return (int64_t)len;
		case 3: return (int64_t)len + 1;
		case 4: return M1;
		case 5: return (int64_t)cap - 1;
		case 6: return (int64_t)cap;
		case 7: return (int64_t)cap + 1;
		case 8: return len > 1 ? (int64_t)(len / 2) : 0;
		default: return (int64_t)r.below(len + 2);
	}
}
int64_t boundary_len(Rng & r, size_t pos, size_t len) {
	size_t rest = pos <= len ? len - pos : 0;
	switch (r.below(10)) {
		case 0: return 0;
		case 1: return 1;
		case 2: return M1;
		case 3: return (int64_t)rest;
		case 4: return rest ? (int64_t)rest - 1 : 0;
		case 5: return (int64_t)rest + 1;
		case 6: return (int64_t)len + 1;
		default: return (int64_t)r.below(rest + 3);
	}
}
size_t size_near_cap(Rng & r, size_t len, size_t cap) {
	// appended size that lands the new length just below / at / above the current capacity or its double
	size_t target_cap = r.chance(1, 3) ? cap * 2 : cap;
	int64_t want = (int64_t)target_cap - 1 - (int64_t)len + r.range(-2, 2);
	if (want < 0) want = (int64_t)r.below(4);
	if (want > 70000) want = 70000;
	return (size_t)want;
}

struct DstrEngine : Engine {
	const char * name() const override { return "dstr"; }
	const char * property() const override { return "C19"; }
	bool crash_in_scope() const override { return true; }
	std::string rule() const override {
		return "plan = 1..60 DString operations over <=3 live strings, arguments drawn from boundary values relative to the current length/capacity "
		       "(0, len-1, len, len+1, (size_t)-1, capacity-1/capacity/capacity+1, sizes around each doubling), byte arrays with/without NUL, printf patterns, NULL arguments; "
		       "knobs: starting capacity in {1,2,3,7,16,64,1024}, realloc-always-moves. Distinct = distinct plan hash; non-trivial = >=3 operations and at least one that grows the buffer.";
	}

	Json plan(uint64_t seed, const std::string & tier) override {
		Rng kn = substream(seed, "knobs"), w = substream(seed, "workload");
		Json p = Json::object();
		p["engine"] = "dstr";
		static const int starts[] = {1, 2, 3, 7, 16, 64, 1024, 1024};
		Json knobs = Json::object();
		size_t start = (size_t)starts[kn.below(8)];
		knobs["dstring_start"] = (int64_t)start;
		knobs["realloc"] = kn.chance(1, 2) ? 1 : 0;
		knobs["malloc_fill"] = kn.chance(1, 2) ? 1 : 0;      // fresh heap memory holds garbage: a terminator or length that was only "there" because new memory happened to be zero shows up
		p["knobs"] = knobs;
		int nops = (int)w.range(1, tier == "thorough" ? 60 : 40);
		Model m[3];
		Json ops = Json::array();
		bool allow_nul = w.chance(1, 3);           // swarm: NUL-carrying arrays only in some runs
		bool allow_null_args = w.chance(1, 4);
		bool big = w.chance(1, 5);
		g_repetitive = w.chance(1, 3);
		for (int n = 0; n < nops; n++) {
			int slot = (int)w.below(w.chance(2, 3) ? 1 : 3);
			Json op = Json::object();
			Model & M = m[slot];
			if (!M.live) {
				std::string s = rand_text(w, (size_t)w.below(w.chance(1, 6) ? start + 3 : 12), false);
				op["k"] = "new"; op["s"] = slot;
				if (allow_null_args && w.chance(1, 10)) { op["null"] = true; s.clear(); } else op["str"] = s;
				M.live = true; M.s = s; M.cap = start; while (M.cap < s.size() + 1) M.cap *= 2;
				ops.push(op);
				continue;
			}
			size_t len = M.s.size(), cap = M.cap;
			bool has_nul = M.s.find('\0') != std::string::npos;
			unsigned kind = (unsigned)w.below(100);
			op["s"] = slot;
			auto text = [&](bool nul_ok) {
				size_t n2;
				unsigned c = (unsigned)w.below(10);
				if (c < 5) n2 = (size_t)w.below(6);
				else if (c < 8) n2 = size_near_cap(w, len, cap);
				else n2 = (size_t)w.below(big ? 3000 : 40);
				if (len + n2 > 65536) n2 = (size_t)w.below(8);
				return rand_text(w, n2, nul_ok);
			};
			if (kind < 4) { op["k"] = "free"; M = Model(); }
			else if (kind < 14) { std::string s = text(false); op["k"] = "append"; op["str"] = s; if (allow_null_args && w.chance(1, 12)) { op.erase("str"); op["null"] = true; s.clear(); } M.s += s; }
			else if (kind < 20) { int c = w.chance(1, 8) ? 0 : (int)w.range(1, 255); op["k"] = "append_c"; op["c"] = c; if (c) M.s.push_back((char)c); }
			else if (kind < 30) {
				std::string s = text(allow_nul);
				op["k"] = "append_c_array"; op["str"] = s;
				if (w.chance(1, 5)) { op["n"] = M1; M.s += cstr_of(s); }
				else { int64_t nb = (int64_t)w.below(s.size() + 1); if (w.chance(2, 3)) nb = (int64_t)s.size(); op["n"] = nb; M.s.append(s, 0, (size_t)nb); }
			}
			else if (kind < 36) { int pat = (int)w.below(NPAT); Json args = Json::array(); mkargs(w, pat, args); op["k"] = "append_printf"; op["pat"] = pat; op["args"] = args; M.s += fmt_apply(pat, args); }
			else if (kind < 42) { std::string s = text(false); op["k"] = "prepend"; op["str"] = s; M.s.insert(0, s); }
			else if (kind < 52) { std::string s = text(false); int64_t pos = boundary_pos(w, len, cap); op["k"] = "insert"; op["pos"] = pos; op["str"] = s; m_insert(M.s, (size_t)pos, s); }
			else if (kind < 58) { int c = w.chance(1, 8) ? 0 : (int)w.range(1, 255); int64_t pos = boundary_pos(w, len, cap); op["k"] = "insert_c"; op["pos"] = pos; op["c"] = c; if (c) m_insert(M.s, (size_t)pos, std::string(1, (char)c)); }
			else if (kind < 68) {
				std::string s = text(allow_nul); int64_t pos = boundary_pos(w, len, cap);
				op["k"] = "insert_c_array"; op["pos"] = pos; op["str"] = s;
				if (w.chance(1, 5)) { op["n"] = M1; m_insert(M.s, (size_t)pos, cstr_of(s)); }
				else { int64_t nb = (int64_t)w.below(s.size() + 1); if (w.chance(2, 3)) nb = (int64_t)s.size(); op["n"] = nb; m_insert(M.s, (size_t)pos, s.substr(0, (size_t)nb)); }
			}
			else if (kind < 73) { int pat = (int)w.below(NPAT); Json args = Json::array(); mkargs(w, pat, args); int64_t pos = boundary_pos(w, len, cap); op["k"] = "insert_printf"; op["pos"] = pos; op["pat"] = pat; op["args"] = args; m_insert(M.s, (size_t)pos, fmt_apply(pat, args)); }
			else if (kind < 83) { int64_t pos = boundary_pos(w, len, cap); int64_t l = boundary_len(w, (size_t)pos, len); op["k"] = "erase"; op["pos"] = pos; op["len"] = l; m_erase(M.s, (size_t)pos, (size_t)l); }
			else if (kind < 91) { int64_t pos = boundary_pos(w, len, cap); int64_t l = boundary_len(w, (size_t)pos, len); op["k"] = "copy_substring"; op["pos"] = pos; op["len"] = l; }
			else if (!has_nul) {
				// replace: originals are drawn from the current content so that matches happen, incl. one straddling the range end
				int64_t pos = boundary_pos(w, len, cap); int64_t l = boundary_len(w, (size_t)pos, len);
				std::string orig, repl;
				if (len && w.chance(3, 4)) { size_t a = (size_t)w.below(len); size_t b = 1 + (size_t)w.below(3); orig = M.s.substr(a, b); }
				else orig = rand_text(w, 1 + (size_t)w.below(2), false);
				if (orig.empty()) orig = "a";
				repl = w.chance(1, 4) ? std::string() : rand_text(w, (size_t)w.below(5), false);
				if (w.chance(1, 6)) repl = orig + orig;
				if (len >= 2 && w.chance(1, 4)) {
					// a match that starts inside the range and ends beyond it, replaced by something shorter
					size_t at = w.chance(1, 2) ? 0 : (size_t)w.below(len - 1), bl = 2 + (size_t)w.below(3);
					orig = M.s.substr(at, bl);
					if (orig.size() >= 2) {
						pos = (int64_t)w.below(at + 1);
						l = (int64_t)(at - (size_t)pos) + 1 + (int64_t)w.below(orig.size() - 1);
						repl = w.chance(1, 2) ? std::string() : orig.substr(0, 1);
					}
				}
				op["k"] = "replace"; op["pos"] = pos; op["len"] = l; op["orig"] = orig; op["repl"] = repl;
				m_replace(M.s, (size_t)pos, (size_t)l, orig, repl);
			}
			else { op["k"] = "append_c"; op["c"] = 'z'; M.s.push_back('z'); }
			if (M.live) M.cap = predict_cap(M.cap, M.s.size());
			ops.push(op);
		}
		p["ops"] = ops;
		return p;
	}
	static void mkargs(Rng & w, int pat, Json & args) {
		std::string t = PATS[pat % NPAT].types;
		for (char c : t) {
			if (c == 's') args.push(rand_text(w, (size_t)w.below(9), false));
			else if (c == 'd') args.push((int64_t)w.range(-100000, 100000));
			else args.push((int64_t)(w.chance(1, 8) ? 0 : w.range(1, 255)));
		}
	}

	Json execute(const Json & plan, bool verbose) override {
		mmd6_verif_dstring_start = (size_t)plan.at("knobs").geti("dstring_start", 1024);
		if (mmd6_verif_dstring_start == 0) mmd6_verif_dstring_start = 1;
		g_sim.realloc_mode = (int)plan.at("knobs").geti("realloc", 0);
		DString * d[3] = {nullptr, nullptr, nullptr};
		Model m[3];
		Json res = Json::object();
		Json viol, states = Json::array();
		std::map<std::string, int64_t> probes;
		std::set<std::string> st;
		const Json & ops = plan.at("ops");
		int64_t executed = 0;
		for (size_t k = 0; k < ops.size() && viol.is_null(); k++) {
			const Json & op = ops[k];
			child_mark_op((int)k);
			std::string kind = op.gets("k");
			int slot = (int)op.geti("s") % 3;
			DString * D = d[slot];
			Model & M = m[slot];
			size_t len0 = M.s.size();
			size_t cap0 = D ? D->currentStringBufferSize : 0;
			uint64_t moved0 = g_sim.realloc_moved;
			size_t pos = (size_t)op.geti("pos");
			size_t ln = (size_t)op.geti("len");
			std::string str = op.gets("str");
			bool isnull = op.getb("null");
			std::string why;
			if (kind == "new") {
				if (D) { IN_LIB_V(d_string_free(D, true)); }
				std::string c = cstr_of(str);
				D = d[slot] = IN_LIB(d_string_new(isnull ? NULL : c.c_str()));
				M.live = true; M.s = isnull ? "" : c;
				if (!D) why = "d_string_new returned NULL";
			} else if (!D) {
				// operation on a freed/absent slot (after shrinking removed its `new`): the API accepts NULL and must do nothing
				if (kind == "append") IN_LIB_V(d_string_append(NULL, str.c_str()));
				else if (kind == "erase") IN_LIB_V(d_string_erase(NULL, pos, ln));
				else if (kind == "copy_substring") { char * r = IN_LIB(d_string_copy_substring(NULL, pos, ln)); if (r) why = "copy_substring(NULL) returned non-NULL"; }
				else if (kind == "replace") { long r = IN_LIB(d_string_replace_text_in_range(NULL, pos, ln, "a", "b")); if (r) why = "replace(NULL) returned non-zero"; }
				executed++;
				if (!why.empty()) { viol = Json::object(); viol["clause"] = "model_mismatch"; viol["class"] = kind; viol["detail"] = why; viol["op"] = (int64_t)k; }
				continue;
			} else if (kind == "free") {
				IN_LIB_V(d_string_free(D, true)); d[slot] = D = nullptr; M = Model();
			} else if (kind == "append") {
				std::string c = cstr_of(str);
				IN_LIB_V(d_string_append(D, isnull ? NULL : c.c_str())); if (!isnull) M.s += c;
			} else if (kind == "append_c") {
				char c = (char)op.geti("c"); IN_LIB_V(d_string_append_c(D, c)); if (c) M.s.push_back(c);
			} else if (kind == "append_c_array") {
				int64_t n = op.geti("n");
				if (n == M1) { std::string c = cstr_of(str); IN_LIB_V(d_string_append_c_array(D, c.c_str(), (size_t)-1)); M.s += c; }
				else { if ((size_t)n > str.size()) n = (int64_t)str.size(); IN_LIB_V(d_string_append_c_array(D, str.data(), (size_t)n)); M.s.append(str, 0, (size_t)n); if (str.substr(0, (size_t)n).find('\0') != std::string::npos) probes["nul_inside_array"]++; }
			} else if (kind == "append_printf") {
				real_printf(D, false, 0, (int)op.geti("pat"), op.at("args")); M.s += fmt_apply((int)op.geti("pat"), op.at("args"));
			} else if (kind == "prepend") {
				std::string c = cstr_of(str); IN_LIB_V(d_string_prepend(D, c.c_str())); M.s.insert(0, c);
			} else if (kind == "insert") {
				std::string c = cstr_of(str); IN_LIB_V(d_string_insert(D, pos, c.c_str())); if (pos == len0 + 1 && !c.empty()) probes["insert_at_len_plus_one_clamped"]++; m_insert(M.s, pos, c);
			} else if (kind == "insert_c") {
				char c = (char)op.geti("c"); IN_LIB_V(d_string_insert_c(D, pos, c)); if (c) m_insert(M.s, pos, std::string(1, c));
			} else if (kind == "insert_c_array") {
				int64_t n = op.geti("n");
				if (n == M1) { std::string c = cstr_of(str); IN_LIB_V(d_string_insert_c_array(D, pos, c.c_str(), (size_t)-1)); m_insert(M.s, pos, c); }
				else { if ((size_t)n > str.size()) n = (int64_t)str.size(); IN_LIB_V(d_string_insert_c_array(D, pos, str.data(), (size_t)n)); m_insert(M.s, pos, str.substr(0, (size_t)n)); if (str.substr(0, (size_t)n).find('\0') != std::string::npos) probes["nul_inside_array"]++; }
			} else if (kind == "insert_printf") {
				real_printf(D, true, pos, (int)op.geti("pat"), op.at("args")); m_insert(M.s, pos, fmt_apply((int)op.geti("pat"), op.at("args")));
			} else if (kind == "erase") {
				IN_LIB_V(d_string_erase(D, pos, ln)); if (ln == (size_t)-1 && pos <= len0) probes["erase_to_end_via_minus_one"]++; m_erase(M.s, pos, ln);
			} else if (kind == "copy_substring") {
				char * r = IN_LIB(d_string_copy_substring(D, pos, ln));
				bool ok = pos <= len0 && (ln == (size_t)-1 || ln <= len0 - pos);
				if (!ok) { if (r) why = "copy_substring returned a string for an invalid range"; }
				else if (!r) why = "copy_substring returned NULL for a valid range";
				else {
					std::string want = cstr_of(M.s.substr(pos, ln == (size_t)-1 ? std::string::npos : ln));
					if (want != r) why = "copy_substring content differs: want " + Json(want).dump() + " got " + Json(std::string(r)).dump();
				}
				free(r);
			} else if (kind == "replace") {
				if (M.s.find('\0') == std::string::npos && !op.gets("orig").empty()) {     // outside the model's domain otherwise (DESIGN 4.7)
					std::string o = cstr_of(op.gets("orig")), rp = cstr_of(op.gets("repl"));
					{
						size_t stop = ln == (size_t)-1 ? M.s.size() : std::min(M.s.size(), pos + ln);
						size_t at = pos <= M.s.size() ? M.s.find(o, pos) : std::string::npos;
						if (at != std::string::npos && at < stop && at + o.size() > stop) probes["replace_match_at_range_end"]++;
					}
					long got = IN_LIB(d_string_replace_text_in_range(D, pos, ln, o.c_str(), rp.c_str()));
					size_t before = M.s.size();
					long want = m_replace(M.s, pos, ln, o, rp);
					if (got != want) why = "replace returned delta " + std::to_string(got) + ", model " + std::to_string(want);
					if (M.s.size() > before) probes["replace_grows"]++;
					if (M.s.size() < before) probes["replace_shrinks"]++;
				}
			}
			executed++;
			// ---- compare with the ideal string after every operation ----
			if (why.empty() && D) {
				size_t L = D->currentStringLength;
				if (L != M.s.size()) why = "length " + std::to_string(L) + " != model " + std::to_string(M.s.size());
				else if (D->currentStringBufferSize <= L) why = "capacity " + std::to_string(D->currentStringBufferSize) + " not larger than length " + std::to_string(L);
				else if (D->currentStringBufferSize > __sanitizer_get_allocated_size(D->str)) why = "recorded capacity exceeds the allocated block";
				else if (memcmp(D->str, M.s.data(), L) != 0) {
					size_t at = 0; while (at < L && D->str[at] == M.s[at]) at++;
					why = "content differs at byte " + std::to_string(at) + " of " + std::to_string(L);
				}
				else if (D->str[L] != 0) why = "not NUL-terminated";
			}
			if (D) {
				if (D->currentStringBufferSize > cap0 && cap0) probes["grew_across_doubling"]++;
				if (g_sim.realloc_moved > moved0) probes["realloc_moved"]++;
				const char * pc = pos == (size_t)-1 ? "max" : pos == 0 ? "0" : pos < len0 ? "mid" : pos == len0 ? "len" : pos == len0 + 1 ? "len+1" : "beyond";
				size_t L = D->currentStringLength, C = D->currentStringBufferSize;
				const char * lc = L + 1 == C ? "full" : L + 2 == C ? "full-1" : L * 2 < C ? "sparse" : "half";
				st.insert(kind + "/" + pc + "/" + lc);
			}
			g_log.ev("op", kind + ":" + (D ? digest(std::string(D->str, D->currentStringLength)) : std::string("-")));
			if (!why.empty()) {
				viol = Json::object(); viol["clause"] = "model_mismatch"; viol["class"] = kind; viol["detail"] = why; viol["op"] = (int64_t)k;
				if (verbose && D) { viol["got"] = std::string(D->str, std::min<size_t>(D->currentStringLength, 200)); viol["want"] = M.s.substr(0, 200); }
			}
		}
		for (int i = 0; i < 3; i++) if (d[i]) IN_LIB_V(d_string_free(d[i], true));
		res["violation"] = viol;
		res["ops_executed"] = executed;
		Json pj = Json::object(); for (auto & kv : probes) pj[kv.first] = kv.second; res["probes"] = pj;
		for (auto & s : st) states.push(s);
		res["states"] = states;
		return res;
	}

	Json judge(const Json &, const ChildOutcome & out, Ctx &) override {
		if (out.status != "finished") return Json();
		return out.result.at("violation");
	}

	bool nontrivial(const Json & plan, const Json & result) override {
		return plan.at("ops").size() >= 3 && result.at("probes").geti("grew_across_doubling") > 0;
	}

	std::vector<Json> simplify(const Json & plan) override {
		std::vector<Json> c;
		if (plan.at("knobs").geti("realloc") != 0) { Json p = plan; p["knobs"]["realloc"] = 0; c.push_back(p); }
		if (plan.at("knobs").geti("dstring_start") != 1024) { Json p = plan; p["knobs"]["dstring_start"] = 1024; c.push_back(p); }
		const Json & ops = plan.at("ops");
		for (size_t k = 0; k < ops.size(); k++) {
			const Json & op = ops[k];
			if (op.geti("s") != 0) { Json p = plan; for (auto & o : p["ops"].a) o["s"] = 0; c.push_back(p); }
			for (const char * key : {"str", "orig", "repl"}) {
				if (op.has(key) && op.gets(key).size() > 1) {
					Json p = plan; std::string s = op.gets(key);
					p["ops"][k][key] = s.substr(0, s.size() / 2);
					if (op.has("n") && op.geti("n") > (int64_t)(s.size() / 2)) p["ops"][k]["n"] = (int64_t)(s.size() / 2);
					c.push_back(p);
					Json q = plan; q["ops"][k][key] = s.substr(s.size() / 2);
					if (op.has("n") && op.geti("n") > (int64_t)(s.size() - s.size() / 2)) q["ops"][k]["n"] = (int64_t)(s.size() - s.size() / 2);
					c.push_back(q);
				}
			}
			if (op.has("pos") && op.geti("pos") > 0) { Json p = plan; p["ops"][k]["pos"] = 0; c.push_back(p); }
			if (op.has("len") && op.geti("len") > 1) { Json p = plan; p["ops"][k]["len"] = 1; c.push_back(p); }
		}
		return c;
	}
};
EngineReg reg(new DstrEngine());
}
#endif
