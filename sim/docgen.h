// Workload documents: the repository's own corpus plus a small generator biased toward
// constructs that populate engine stacks and process-global state.  Documents are workload,
// never the thing the evidence counts as explored.
#pragma once
#include <dirent.h>
#include <algorithm>
#include <fstream>
#include <sstream>
#include "core.h"

static inline const std::vector<std::pair<std::string, std::string>> & corpus() {
	static std::vector<std::pair<std::string, std::string>> c;
	static bool loaded = false;
	if (loaded) return c;
	loaded = true;
	const char * root = getenv("MMD6_REPO");
	std::string dir = std::string(root ? root : "/repo") + "/tests/MMD6Tests";
	DIR * d = opendir(dir.c_str());
	if (!d) return c;
	std::vector<std::string> names;
	while (struct dirent * e = readdir(d)) {
		std::string n = e->d_name;
		if (n.size() > 5 && n.substr(n.size() - 5) == ".text") names.push_back(n);
	}
	closedir(d);
	std::sort(names.begin(), names.end());     // directory iteration order must not enter a decision
	for (auto & n : names) {
		std::ifstream f(dir + "/" + n, std::ios::binary);
		std::stringstream ss; ss << f.rdbuf();
		std::string s = ss.str();
		if (s.size() <= 20000 && s.find('\0') == std::string::npos) c.emplace_back(n, s);
	}
	return c;
}

// OPML documents of the repository's own corpus (expected outputs of the OPML tests) - valid input for EXT_PARSE_OPML
static inline const std::vector<std::string> & opml_corpus() {
	static std::vector<std::string> c;
	static bool loaded = false;
	if (loaded) return c;
	loaded = true;
	const char * root = getenv("MMD6_REPO");
	std::string dir = std::string(root ? root : "/repo") + "/tests/MMD6Tests";
	DIR * d = opendir(dir.c_str());
	if (!d) return c;
	std::vector<std::string> names;
	while (struct dirent * e = readdir(d)) { std::string n = e->d_name; if (n.size() > 5 && n.substr(n.size() - 5) == ".opml") names.push_back(n); }
	closedir(d);
	std::sort(names.begin(), names.end());
	for (auto & n : names) {
		std::ifstream f(dir + "/" + n, std::ios::binary);
		std::stringstream ss; ss << f.rdbuf();
		std::string s = ss.str();
		if (s.size() <= 6000 && s.find('\0') == std::string::npos) c.push_back(s);
	}
	return c;
}

// iThoughts map documents (valid input for EXT_PARSE_ITMZ): a small fixed set kept under /verif/sim/data, produced once with the
// baseline CLI (-t itmz, mapdata.xml of the archive) from corpus documents
static inline const std::vector<std::string> & itmz_corpus() {
	static std::vector<std::string> c;
	static bool loaded = false;
	if (loaded) return c;
	loaded = true;
	const char * root = getenv("MMDSIM_VERIF");
	std::string dir = std::string(root ? root : "/verif") + "/sim/data";
	for (int i = 0; i < 64; i++) {
		char name[64];
		snprintf(name, sizeof name, "/itmz-%02d.xml", i);
		std::ifstream f(dir + name, std::ios::binary);
		if (!f) break;
		std::stringstream ss; ss << f.rdbuf();
		c.push_back(ss.str());
	}
	return c;
}

struct DocOpts {
	bool meta = true, emails = true, notes = true, images = false, critic = true, toc = true, tables = true, html = true, math = true;
	int blocks_min = 1, blocks_max = 12;
	bool email_heavy = false;                 // swarm: documents that advance the obfuscation generator a long way (several autolinks)
	std::vector<std::string> image_urls;      // for package workloads
};

static inline std::string gen_words(Rng & r, int n) {
	static const char * w[] = {"alpha", "beta", "gamma", "delta", "it's", "\"quoted\"", "foo--bar", "a...b", "x < y", "AT&T", "caf\xc3\xa9", "na\xc3\xafve", "*emph*", "**strong**", "`code`", "_under_", "1/2", "(c)", "100%", "back\\slash", "tab\there", "H~2~O", "x^2^", "~~gone~~"};
	std::string s;
	for (int i = 0; i < n; i++) { if (i) s += ' '; s += w[r.below(sizeof(w) / sizeof(w[0]))]; }
	return s;
}

static inline std::string gen_doc(Rng & r, const DocOpts & o) {
	std::string d;
	int nnotes = 0, ncites = 0, ngloss = 0, nabbr = 0, nlinks = 0, nimg = 0;
	std::string defs;
	if (o.meta && r.chance(1, 2)) {
		d += "Title: " + gen_words(r, 1 + (int)r.below(3)) + "\n";
		if (r.chance(1, 2)) d += "Author: " + gen_words(r, 2) + "\n";
		if (r.chance(1, 3)) d += "Base Header Level: " + std::to_string(1 + r.below(3)) + "\n";
		if (r.chance(1, 2)) d += "Language: " + std::string(r.chance(1, 2) ? "de" : r.chance(1, 2) ? "fr" : "sv") + "\n";
		if (r.chance(1, 4)) d += "CSS: style.css\n";
		if (r.chance(1, 4)) d += "Quotes Language: " + std::string(r.chance(1, 2) ? "german" : "swedish") + "\n";
		if (r.chance(1, 5)) d += "custom key: value with *markup*\n    continued line\n";
		d += "\n";
	}
	int nb = (int)r.range(o.blocks_min, o.blocks_max);
	for (int b = 0; b < nb; b++) {
		unsigned k = (unsigned)r.below(26);
		if (o.email_heavy && o.emails && r.chance(1, 3)) k = 2;
		switch (k) {
			case 0: {
				std::string img;
				if (!o.image_urls.empty() && r.chance(1, 3)) img = " ![h](" + o.image_urls[r.below(o.image_urls.size())] + ")";      // an image inside a heading
				d += std::string(1 + r.below(4), '#') + " " + gen_words(r, 2) + img + (r.chance(1, 3) ? " [lbl" + std::to_string(b) + "]" : "") + "\n\n";
				break;
			}
			case 1: d += gen_words(r, 3) + "\n" + (r.chance(1, 2) ? "=====" : "-----") + "\n\n"; break;
			case 2: if (o.emails) { d += "Mail <user" + std::to_string(r.below(3)) + "@example.co> and <mailto:b@c.org> " + gen_words(r, 2) + "\n\n"; break; }
			// fallthrough
			case 3: if (o.notes) { nnotes++; d += gen_words(r, 3) + "[^n" + std::to_string(nnotes) + "] " + gen_words(r, 1) + (r.chance(1, 3) ? "[^inline note " + gen_words(r, 2) + "]" : "") + "\n\n"; defs += "[^n" + std::to_string(nnotes) + "]: " + gen_words(r, 4) + "\n\n"; break; }
			// fallthrough
			case 4: if (o.notes) { ncites++; d += gen_words(r, 2) + "[p. 3][#c" + std::to_string(ncites) + "] " + (r.chance(1, 3) ? "[#c1;]" : "") + "\n\n"; defs += "[#c" + std::to_string(ncites) + "]: Author. *Title*. 20" + std::to_string(10 + r.below(10)) + ".\n\n"; break; }
			// fallthrough
			case 5: if (o.notes) { ngloss++; d += gen_words(r, 2) + " [?term" + std::to_string(ngloss) + "] " + gen_words(r, 1) + "\n\n"; defs += "[?term" + std::to_string(ngloss) + "]: " + gen_words(r, 5) + "\n\n"; break; }
			// fallthrough
			case 6: if (o.notes) { nabbr++; d += "The [>AB" + std::to_string(nabbr) + "] thing and AB" + std::to_string(nabbr) + " again\n\n"; defs += "[>AB" + std::to_string(nabbr) + "]: Abbreviated " + gen_words(r, 2) + "\n\n"; break; }
			// fallthrough
			case 7: nlinks++; d += "A [link " + std::to_string(nlinks) + "][l" + std::to_string(nlinks) + "] and [inline](http://example.com/?a=1&b=2 \"T\") and [l" + std::to_string(nlinks) + "][]\n\n"; defs += "[l" + std::to_string(nlinks) + "]: http://example.net/p" + std::to_string(nlinks) + " \"Title\" class=x\n\n"; break;
			case 8:
				if (o.images || !o.image_urls.empty()) {
					nimg++;
					std::string url = o.image_urls.empty() ? "img" + std::to_string(r.below(3)) + ".png" : o.image_urls[r.below(o.image_urls.size())];
					if (!o.image_urls.empty() && r.chance(1, 5)) {
						// an image that is only referenced from inside a footnote definition, a table cell, a list item or a block quote
						unsigned where = (unsigned)r.below(4);
						if (where == 0) { d += gen_words(r, 1) + "[^img" + std::to_string(nimg) + "]\n\n"; defs += "[^img" + std::to_string(nimg) + "]: note with ![in note](" + url + ") inside\n\n"; }
						else if (where == 1) d += "| a | ![cell](" + url + ") |\n| --- | --- |\n| x | y |\n\n";
						else if (where == 2) d += "* item ![li](" + url + ")\n* two\n\n";
						else d += "> quoted ![q](" + url + ")\n\n";
						break;
					}
					if (r.chance(1, 3)) { d += "![alt *text*][i" + std::to_string(nimg) + "]\n\n"; defs += "[i" + std::to_string(nimg) + "]: " + url + " \"cap\" width=40px\n\n"; }
					else d += gen_words(r, 1) + " ![alt " + std::to_string(nimg) + "](" + url + (r.chance(1, 3) ? " \"title\"" : "") + ") " + gen_words(r, 1) + "\n\n";
					break;
				}
			// fallthrough
			case 9: if (o.tables) {
				if (r.chance(1, 3)) {
					// ragged tables: a separator line with fewer (or more) columns than the rows, varying alignments
					static const char * al[] = {":--", "--:", ":-:", "---"};
					int ncol = (int)r.range(1, 4), nrow = (int)r.range(1, 3);
					d += "|"; for (int c = 0; c < ncol; c++) d += " h" + std::to_string(c) + " |"; d += "\n|";
					for (int c = 0; c < ncol; c++) d += std::string(" ") + al[r.below(4)] + " |"; d += "\n";
					for (int rw = 0; rw < nrow; rw++) { int nc = (int)r.range(1, 6); d += "|"; for (int c = 0; c < nc; c++) d += " " + gen_words(r, 1) + " |"; d += "\n"; }
					d += "\n";
					break;
				}
				d += "| a | b | c |\n| :-- | :-: | --: |\n| " + gen_words(r, 1) + " | " + gen_words(r, 1) + " || \n| x | y | z |\n" + (r.chance(1, 2) ? "[Caption " + std::to_string(b) + "]\n" : "") + "\n"; break; }
			// fallthrough
			case 10: d += "Term " + std::to_string(b) + "\n: Definition " + gen_words(r, 3) + "\n: Second def\n\n"; break;
			case 11: if (o.critic) { d += "Critic {++add++} {--del--} {~~old~>new~~} {==hi==}{>>comment<<} " + gen_words(r, 1) + "\n\n"; break; }
			// fallthrough
			case 12: if (o.toc && r.chance(1, 2)) { d += r.chance(1, 2) ? "{{TOC}}\n\n" : "{{TOC:2-3}}\n\n"; break; }
			// fallthrough
			case 13: if (o.math) { d += "Math \\\\(x^2\\\\) and $y_1$ and $$z$$ " + gen_words(r, 1) + "\n\n"; break; }
			// fallthrough
			case 14: d += "```c\nint x = " + std::to_string(r.below(100)) + "; // <&>\n```\n\n"; break;
			case 15: d += "* item " + gen_words(r, 1) + "\n* item two\n    * nested\n\n1. one\n2. two\n\n"; break;
			case 16: d += "> quoted " + gen_words(r, 3) + "\n> more\n\n"; break;
			case 17: if (o.html) { d += "<div class=\"x\">\n*html* " + gen_words(r, 2) + "\n</div>\n\n<!-- comment -->\n\n"; break; }
			// fallthrough
			case 18: d += "    indented code " + gen_words(r, 2) + "\n\n"; break;
			case 19: d += "* * *\n\n"; break;
			case 20: d += "Cross-ref [Section][lbl" + std::to_string(r.below(nb)) + "] and [%title] variable, " + gen_words(r, 2) + "  \nhard break\n\n"; break;
			case 21: d += "Raw `<b>`{=html} and `\\\\emph{x}`{=latex} " + gen_words(r, 1) + "\n\n"; break;
			case 22: d += "Auto <http://example.com/a?b=c&d=e> link " + gen_words(r, 1) + "\n\n"; break;
			default: d += gen_words(r, 3 + (int)r.below(12)) + "\n\n"; break;
		}
	}
	d += defs;
	if (r.chance(1, 8) && !d.empty()) d.pop_back();      // no final newline
	if (r.chance(1, 12)) { size_t p = 0; std::string t; for (char c : d) { if (c == '\n') t += "\r\n"; else t.push_back(c); (void)p; } d = t; }
	return d;
}

// a document with many long abbreviation / glossary terms: the automatic-search trie needs several hundred nodes (more than its initial capacity)
static inline std::string gen_glossary_doc(Rng & r) {
	std::string d, defs;
	int n = (int)r.range(20, 50);
	for (int i = 0; i < n; i++) {
		std::string term;
		int len = (int)r.range(10, 18);
		for (int j = 0; j < len; j++) term.push_back((char)('a' + r.below(26)));
		term += std::to_string(i);
		bool abbr = r.chance(1, 2);
		d += "Uses " + std::string(abbr ? "[>" : "[?") + term + "] and " + term + " again, " + gen_words(r, 2) + ".\n\n";
		defs += std::string(abbr ? "[>" : "[?") + term + "]: " + gen_words(r, 3) + "\n\n";
	}
	return d + defs;
}

// a document that needs many tokens (several pool slabs)
static inline std::string gen_big_doc(Rng & r, int paragraphs) {
	std::string d;
	for (int i = 0; i < paragraphs; i++) d += gen_words(r, 6 + (int)r.below(10)) + " *e" + std::to_string(i) + "* [l](http://x.y/" + std::to_string(i) + ")\n\n";
	return d;
}

static inline std::string pick_doc(Rng & r, const DocOpts & o, bool allow_corpus = true) {
	const auto & c = corpus();
	if (allow_corpus && !c.empty() && r.chance(1, 3)) return c[r.below(c.size())].second;
	return gen_doc(r, o);
}

// formats and extension sets
static const int FMT_HTML = 0, FMT_EPUB = 1, FMT_LATEX = 2, FMT_BEAMER = 3, FMT_MEMOIR = 4, FMT_FODT = 5, FMT_ODT = 6, FMT_TEXTBUNDLE = 7,
				 FMT_TEXTBUNDLE_COMPRESSED = 8, FMT_OPML = 9, FMT_ITMZ = 10, FMT_MMD = 11, FMT_HTML_WITH_ASSETS = 12;
static const unsigned long X_COMPATIBILITY = 1 << 0, X_COMPLETE = 1 << 1, X_SNIPPET = 1 << 2, X_SMART = 1 << 3, X_NOTES = 1 << 4, X_NO_LABELS = 1 << 5,
						   X_PROCESS_HTML = 1 << 6, X_NO_METADATA = 1 << 7, X_OBFUSCATE = 1 << 8, X_CRITIC = 1 << 9, X_CRITIC_ACCEPT = 1 << 10,
						   X_CRITIC_REJECT = 1 << 11, X_RANDOM_FOOT = 1 << 12, X_TRANSCLUDE = 1 << 13, X_PARSE_OPML = 1 << 14, X_PARSE_ITMZ = 1 << 15,
						   X_RANDOM_LABELS = 1 << 16;

static inline unsigned long gen_ext(Rng & r, bool allow_random) {
	unsigned long e = 0;
	if (r.chance(4, 5)) e |= X_SMART | X_NOTES | X_CRITIC;       // the CLI default set
	else { if (r.chance(1, 2)) e |= X_SMART; if (r.chance(1, 2)) e |= X_NOTES; if (r.chance(1, 2)) e |= X_CRITIC; }
	if (r.chance(1, 3)) e |= X_COMPLETE; else if (r.chance(1, 4)) e |= X_SNIPPET;
	if (r.chance(1, 10)) e |= X_COMPATIBILITY;
	if (r.chance(1, 8)) e |= X_NO_LABELS;
	if (r.chance(1, 8)) e |= X_PROCESS_HTML;
	if (r.chance(1, 10)) e |= X_NO_METADATA;
	if (r.chance(1, 4)) e |= X_OBFUSCATE;
	if (r.chance(1, 8)) e |= X_CRITIC_ACCEPT; else if (r.chance(1, 8)) e |= X_CRITIC_REJECT;
	if (allow_random && r.chance(1, 6)) e |= X_RANDOM_FOOT;
	if (allow_random && r.chance(1, 8)) e |= X_RANDOM_LABELS;
	return e;
}
static inline int gen_text_format(Rng & r) {
	static const int f[] = {FMT_HTML, FMT_HTML, FMT_HTML, FMT_LATEX, FMT_BEAMER, FMT_MEMOIR, FMT_FODT, FMT_OPML, FMT_ITMZ, FMT_MMD, FMT_HTML_WITH_ASSETS};
	return f[r.below(sizeof(f) / sizeof(f[0]))];
}
