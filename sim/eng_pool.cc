// Engine `pool` (C18): well-bracketed histories of token_pool_init / conversions / parse+hold+inspect /
// token_pool_drain / token_pool_free, with the slab size knob (H2), slab accounting through the
// allocator seam, ASan as the judge of token lifetime and fresh-process references for results.
#if defined(VARIANT_A)
#include "libapi.h"
#include "docgen.h"
#include "simfs.h"

namespace {

enum { TAG_OTHER = 0, TAG_POOL = 1, TAG_POOLC = 2 };    // POOL: allocated during token_pool_init; POOLC: allocated by code in object_pool.c
extern "C" {
#include "object_pool.h"
	void pool_add_slab(pool * p);
}

uint64_t tree_hash(token * t, const char * src, size_t srclen, uint64_t h, uint64_t * count) {
	while (t) {
		uint64_t f[8] = { t->type, (uint64_t)t->can_open, (uint64_t)t->can_close, (uint64_t)t->unmatched, t->start, t->len, t->mate ? 1ull : 0ull, t->tail ? 1ull : 0ull };
		h = fnv1a(f, sizeof f, h);
		if (t->start <= srclen && t->len <= srclen - t->start) h = fnv1a(src + t->start, t->len, h);     // the source bytes the span covers
		if (t->mate) { uint64_t m[2] = { t->mate->type, t->mate->start }; h = fnv1a(m, sizeof m, h); }
		if (t->prev) { uint64_t m = t->prev->start; h = fnv1a(&m, sizeof m, h); }
		(*count)++;
		if (t->child) h = tree_hash(t->child, src, srclen, h, count);
		t = t->next;
	}
	return h;
}

struct PoolEngine : Engine {
	const char * name() const override { return "pool"; }
	const char * property() const override { return "C18"; }
	std::string rule() const override {
		return "plan = well-bracketed history (1..40 ops) over INIT, DRAIN, FREE (depth 0), CONVERT(doc,fmt,ext), PARSE_HOLD(slot,doc), INSPECT(slot) (only while the "
		       "outermost drain after the parse has not happened), RELEASE(slot), CLI (the command line tool's own main() in-process, single file or batch); nested pairs, re-init after free, CLI and batch-mode sequences seeded in; slab-size knob in "
		       "{1,2,3,17,64,1024}; documents from a dozen tokens to several slabs. Distinct = plan hash; non-trivial = contains a nested init/drain pair or a re-init after free, and >=1 slab boundary crossed.";
	}

	// ---- model (DESIGN appendix A.3), used by the planner and by fixup ----
	struct M { int depth = 0; bool alive = false; bool held[3] = {false, false, false}; bool valid[3] = {false, false, false}; };
	static bool legal(const M & m, const Json & op) {
		std::string k = op.gets("k");
		int s = (int)op.geti("slot") % 3;
		if (k == "INIT") return true;
		if (k == "DRAIN") return m.depth > 0;
		if (k == "FREE") return m.depth == 0 && m.alive;
		if (k == "CLI") return m.depth == 0;      // the command line tool's own main(): init .. drain, free - from outside any bracket
		if (k == "CONVERT" || k == "CRITIC" || k == "META") return m.depth > 0;
		if (k == "PARSE_HOLD") return m.depth > 0 && !m.held[s];
		if (k == "INSPECT") return m.held[s] && m.valid[s];
		if (k == "RELEASE") return m.held[s];
		return false;
	}
	static void apply(M & m, const Json & op) {
		std::string k = op.gets("k");
		int s = (int)op.geti("slot") % 3;
		if (k == "INIT") { m.depth++; m.alive = true; }
		else if (k == "DRAIN") { m.depth--; if (m.depth == 0) for (int i = 0; i < 3; i++) m.valid[i] = false; }
		else if (k == "FREE" || k == "CLI") m.alive = false;
		else if (k == "PARSE_HOLD") { m.held[s] = true; m.valid[s] = true; }
		else if (k == "RELEASE") { m.held[s] = false; m.valid[s] = false; }
	}
	bool fixup(Json & plan) override {
		// after ops were deleted: drop what is no longer legal, then close every open bracket
		M m;
		Json ops = Json::array();
		auto add = [&](const char * k, int slot) { Json o = Json::object(); o["k"] = k; o["slot"] = slot; if (legal(m, o)) { apply(m, o); ops.push(o); } };
		for (auto & op : plan.at("ops").a) {
			std::string k = op.gets("k");
			if ((k == "CONVERT" || k == "PARSE_HOLD" || k == "CRITIC" || k == "META") && m.depth == 0) add("INIT", 0);     // keep the essential operation, restore its bracket
			if (legal(m, op)) { apply(m, op); ops.push(op); }
		}
		for (int i = 0; i < 3; i++) if (m.held[i]) add("RELEASE", i);
		while (m.depth > 0) add("DRAIN", 0);
		if (m.alive) add("FREE", 0);
		plan["ops"] = ops;
		return ops.size() > 0;
	}

	Json plan(uint64_t seed, const std::string & tier) override {
		Rng kn = substream(seed, "knobs"), w = substream(seed, "workload"), en = substream(seed, "env");
		Json p = Json::object();
		p["engine"] = "pool";
		static const int slabs[] = {1, 2, 3, 17, 64, 1024, 1024};
		Json knobs = Json::object();
		knobs["slab_objects"] = slabs[kn.below(7)];
		knobs["dstring_start"] = kn.chance(1, 3) ? 16 : 1024;
		knobs["realloc"] = kn.chance(1, 3) ? 1 : 0;
		knobs["malloc_fill"] = kn.chance(1, 2) ? 1 : 0;      // fresh heap memory holds garbage that depends on the allocation history (core.h)
		p["knobs"] = knobs;
		DocOpts dopt; dopt.images = true;
		if (w.chance(1, 4)) dopt.email_heavy = true;
		// per-run document pool
		Json docs = Json::array();
		int ndocs = (int)w.range(1, 4);
		for (int i = 0; i < ndocs; i++) {
			if (w.chance(1, 5)) docs.push(gen_big_doc(w, (int)w.range(40, tier == "thorough" ? 900 : 300)));      // several slabs even at 1024 objects
			else docs.push(pick_doc(w, dopt));
		}
		p["docs"] = docs;
		M m;
		Json ops = Json::array();
		auto push = [&](Json op) { if (legal(m, op)) { apply(m, op); ops.push(op); return true; } return false; };
		auto mk = [&](const char * k) { Json o = Json::object(); o["k"] = k; return o; };
		auto conv = [&]() { Json o = mk("CONVERT"); o["doc"] = (int64_t)w.below((uint64_t)ndocs); o["fmt"] = gen_text_format(w); o["ext"] = (int64_t)gen_ext(w, true); o["lang"] = (int64_t)w.below(7); o["env"] = gen_env(en); return o; };
		unsigned shape = (unsigned)w.below(8);
		if (shape == 0) {          // the CLI's own sequence
			push(mk("INIT")); push(mk("INIT")); push(conv()); push(mk("DRAIN")); push(mk("DRAIN")); push(mk("FREE"));
		} else if (shape == 1) {   // batch mode
			push(mk("INIT"));
			int n = (int)w.range(1, 5);
			for (int i = 0; i < n; i++) { push(mk("INIT")); push(conv()); push(mk("DRAIN")); }
			push(mk("DRAIN")); push(mk("FREE"));
		}
		int target = (int)w.range(1, tier == "thorough" ? 40 : 30);
		int guard = 0;
		while ((int)ops.size() < target && guard++ < 400) {
			unsigned k = (unsigned)w.below(100);
			Json o;
			if (k < 18) o = mk("INIT");
			else if (k < 34) o = mk("DRAIN");
			else if (k < 40) o = mk("FREE");
			else if (k < 58) o = conv();
			else if (k < 59 && m.depth == 0 && w.chance(1, 2)) {
				// main() of the command line tool, in-process: single file (init, init?, convert, drain, free) or batch mode (init, {init, convert, drain}*, drain, free)
				o = mk("CLI"); o["batch"] = w.chance(1, 2);
				Json fl = Json::array(); int nf = o.getb("batch") ? (int)w.range(1, 3) : 1; for (int i = 0; i < nf; i++) fl.push((int64_t)w.below((uint64_t)ndocs));
				o["files"] = fl; o["fmt"] = w.chance(2, 3) ? FMT_HTML : FMT_LATEX; o["env"] = gen_env(en);
			}
			else if (k < 60) { o = mk("CRITIC"); o["doc"] = (int64_t)w.below((uint64_t)ndocs); o["accept"] = w.chance(1, 2); }      // other token consumers inside the bracket
			else if (k < 62) { o = mk("META"); o["doc"] = (int64_t)w.below((uint64_t)ndocs); }
			else if (k < 76) { o = mk("PARSE_HOLD"); o["slot"] = (int64_t)w.below(3); o["doc"] = (int64_t)w.below((uint64_t)ndocs); o["ext"] = (int64_t)gen_ext(w, false); }
			else if (k < 92) { o = mk("INSPECT"); o["slot"] = (int64_t)w.below(3); }
			else { o = mk("RELEASE"); o["slot"] = (int64_t)w.below(3); }
			push(o);
		}
		p["ops"] = ops;
		fixup(p);
		return p;
	}

	Json execute(const Json & plan, bool verbose) override {
		const Json & kn = plan.at("knobs");
		mmd6_verif_pool_objects = (size_t)kn.geti("slab_objects", 1024);
		if (!mmd6_verif_pool_objects) mmd6_verif_pool_objects = 1;
		mmd6_verif_dstring_start = (size_t)kn.geti("dstring_start", 1024);
		if (!mmd6_verif_dstring_start) mmd6_verif_dstring_start = 1;
		g_sim.realloc_mode = (int)kn.geti("realloc", 0);
		simfs_reset();
		std::map<void *, Sim::Block> blocks;
		g_sim.blocks = &blocks;
		g_sim.track_blocks = true;
		const size_t slab_bytes = sizeof(token) * mmd6_verif_pool_objects;
		{
			// text range of object_pool.c: every malloc issued from there is the pool struct or a slab
			uintptr_t f[5] = {(uintptr_t)&pool_add_slab, (uintptr_t)&pool_new, (uintptr_t)&pool_free, (uintptr_t)&pool_drain, (uintptr_t)&pool_allocate_object};
			g_sim.range_lo = *std::min_element(f, f + 5); g_sim.range_hi = *std::max_element(f, f + 5) + 768; g_sim.range_tag = TAG_POOLC;
		}
		const Json & docs = plan.at("docs");
		const Json & ops = plan.at("ops");
		mmd_engine * held[3] = {nullptr, nullptr, nullptr};
		uint64_t held_hash[3] = {0, 0, 0};
		M m;
		Json res = Json::object(), outs = Json::array(), viol;
		std::map<std::string, int64_t> probes;
		std::set<std::string> st;
		int64_t executed = 0;
		bool was_freed = false, nested = false, reinit = false;
		auto slabs_live = [&]() { size_t n = 0; for (auto & b : blocks) if (b.second.tag == TAG_POOLC && b.second.n != sizeof(pool)) n++; return n; };
		auto pool_bytes = [&]() { size_t n = 0; for (auto & b : blocks) if (b.second.tag == TAG_POOL || b.second.tag == TAG_POOLC) n += b.second.n; return n; };
		size_t max_slabs = 0;
		for (size_t k = 0; k < ops.size() && viol.is_null(); k++) {
			const Json & op = ops[k];
			std::string kind = op.gets("k");
			int s = (int)op.geti("slot") % 3;
			child_mark_op((int)k);
			if (!legal(m, op)) { viol = Json::object(); viol["clause"] = "harness_illegal_op"; viol["detail"] = kind; break; }
			st.insert("d" + std::to_string(std::min(m.depth, 4)) + "/s" + std::to_string(std::min<size_t>(slabs_live(), 3)) + "/h" + std::to_string((int)m.held[0] + m.held[1] + m.held[2]) + "/" + kind);
			Json o = Json::object();
			o["k"] = kind;
			if (kind == "INIT") {
				if (m.depth >= 1) { nested = true; probes["nested_init"]++; }
				if (m.depth >= 2) probes["depth_ge_3"]++;
				if (was_freed && !m.alive) { reinit = true; probes["reinit_after_free"]++; }
				g_sim.alloc_tag = TAG_POOL;
				IN_LIB_V(token_pool_init());
				g_sim.alloc_tag = TAG_OTHER;
			} else if (kind == "DRAIN") {
				IN_LIB_V(token_pool_drain());
				if (m.depth == 1) {
					// (ii) release at the outermost drain
					size_t live = slabs_live();
					if (live) { viol = Json::object(); viol["clause"] = "slabs_not_released_at_outermost_drain"; viol["detail"] = std::to_string(live) + " slab(s) of " + std::to_string(slab_bytes) + " bytes still live"; viol["op"] = (int64_t)k; }
				} else probes["inner_drain"]++;
			} else if (kind == "FREE") {
				IN_LIB_V(token_pool_free());
				was_freed = true;
				size_t pb = pool_bytes();
				if (pb) { viol = Json::object(); viol["clause"] = "pool_memory_live_after_free"; viol["detail"] = std::to_string(pb) + " bytes attributed to the pool still live"; viol["op"] = (int64_t)k; }
			} else if (kind == "CONVERT") {
				apply_env(op);
				std::string doc = docs[(size_t)op.geti("doc") % docs.size()].s;
				bool after_zero = k > 0 && ops[k - 1].gets("k") == "INIT" && m.depth == 1;
				if (after_zero) probes["convert_right_after_first_init"]++;
				char * r = IN_LIB(mmd_string_convert(doc.c_str(), (unsigned long)op.geti("ext"), (short)op.geti("fmt"), (short)op.geti("lang")));
				std::string out = r ? r : "";
				free(r);
				o["out"] = digest(out);
				if (verbose) o["text"] = out.substr(0, 4000);
				g_log.ev("convert", digest(out));
			} else if (kind == "CLI") {
				apply_env(op);
				std::vector<std::string> args = {"multimarkdown", "-t", op.geti("fmt") == FMT_LATEX ? "latex" : "html"};
				std::vector<std::string> outps;
				const Json & fl = op.at("files");
				if (op.getb("batch")) args.push_back("-b"); else { args.push_back("-o"); args.push_back("/sim/p/out0"); outps.push_back("/sim/p/out0"); }
				for (size_t i = 0; i < fl.size(); i++) {
					std::string path = "/sim/p/f" + std::to_string(i) + ".txt";
					SimFile f; f.versions.push_back(docs[(size_t)fl[i].num() % docs.size()].s);
					g_sim.files[path] = f;
					args.push_back(path);
					if (op.getb("batch")) outps.push_back("/sim/p/f" + std::to_string(i) + (op.geti("fmt") == FMT_LATEX ? ".tex" : ".html"));
				}
				std::vector<char *> argv; for (auto & a2 : args) argv.push_back(&a2[0]); argv.push_back(nullptr);
				int rc = IN_LIB(mmd_cli_main((int)args.size(), argv.data()));
				std::string all = "rc=" + std::to_string(rc);
				for (auto & op2 : outps) { auto it = g_sim.files.find(op2); all += "|" + (it == g_sim.files.end() ? std::string("<missing>") : digest(it->second.written)); }
				o["out"] = digest(all);
				g_log.ev("cli", o.gets("out"));
				was_freed = true;
				probes["cli_main_runs"]++;
				// main() ends with drain + free: nothing of the pool may be left
				size_t pb = pool_bytes();
				if (pb) { viol = Json::object(); viol["clause"] = "pool_memory_live_after_free"; viol["detail"] = std::to_string(pb) + " bytes attributed to the pool still live after the command line tool's main() returned"; viol["op"] = (int64_t)k; }
			} else if (kind == "CRITIC") {
				DString * d = IN_LIB(d_string_new(docs[(size_t)op.geti("doc") % docs.size()].s.c_str()));
				if (op.getb("accept")) IN_LIB_V(mmd_critic_markup_accept(d)); else IN_LIB_V(mmd_critic_markup_reject(d));
				o["out"] = digest(std::string(d->str, d->currentStringLength));
				g_log.ev("critic", o.gets("out"));
				IN_LIB_V(d_string_free(d, true));
			} else if (kind == "META") {
				std::string t = docs[(size_t)op.geti("doc") % docs.size()].s;
				char * r = IN_LIB(mmd_string_metadata_keys(&t[0]));
				o["out"] = digest(r ? r : "");
				free(r);
			} else if (kind == "PARSE_HOLD") {
				std::string doc = docs[(size_t)op.geti("doc") % docs.size()].s;
				mmd_engine * e = IN_LIB(mmd_engine_create_with_string(doc.c_str(), (unsigned long)op.geti("ext")));
				IN_LIB_V(mmd_engine_parse_string(e));
				held[s] = e;
				uint64_t cnt = 0;
				held_hash[s] = tree_hash(e->root, e->dstr->str, e->dstr->currentStringLength, 14695981039346656037ULL, &cnt);
				o["tokens"] = cnt; o["tree"] = hex64(held_hash[s]);
				g_log.ev("parse_hold", held_hash[s], cnt);
			} else if (kind == "INSPECT") {
				// (i) tokens stay valid (and unchanged) until the outermost drain: ASan judges lifetime, the hash judges content
				mmd_engine * e = held[s];
				uint64_t cnt = 0;
				uint64_t h = tree_hash(e->root, e->dstr->str, e->dstr->currentStringLength, 14695981039346656037ULL, &cnt);
				probes["inspect"]++;
				o["tree"] = hex64(h);
				if (h != held_hash[s]) { viol = Json::object(); viol["clause"] = "held_tree_changed"; viol["detail"] = "token tree hash changed while the pool was still in use"; viol["op"] = (int64_t)k; }
				g_log.ev("inspect", h, cnt);
			} else if (kind == "RELEASE") {
				IN_LIB_V(mmd_engine_free(held[s], true));
				held[s] = nullptr;
			}
			apply(m, op);
			max_slabs = std::max(max_slabs, slabs_live());
			if (kind == "INSPECT" && probes["inner_drain"] > 0) probes["inspect_after_inner_drain"]++;
			outs.push(o);
			executed++;
		}
		if (max_slabs > 1) probes["slab_crossed"] += (int64_t)max_slabs - 1;
		if (mmd6_verif_pool_objects <= 3) probes["slab_objects_le_3"]++;
		g_sim.track_blocks = false;
		g_sim.blocks = nullptr;
		res["violation"] = viol;
		res["ops"] = outs;
		res["ops_executed"] = executed;
		Json pj = Json::object(); for (auto & kv : probes) pj[kv.first] = kv.second; res["probes"] = pj;
		Json sj = Json::array(); for (auto & x : st) sj.push(x); res["states"] = sj;
		Json ex = Json::object(); ex["nested"] = nested; ex["reinit"] = reinit; ex["max_slabs"] = (int64_t)max_slabs; res["extra"] = ex;
		return res;
	}

	// the same CONVERT as the first library call of a fresh process, bracketed as the README prescribes
	Json isolate(const Json & plan, int k) override {
		const Json & op = plan.at("ops")[(size_t)k];
		std::string kind = op.gets("k");
		Json p = Json::object();
		p["engine"] = "pool"; p["knobs"] = plan.at("knobs");
		Json ops = Json::array();
		auto mk = [&](const char * kk) { Json o = Json::object(); o["k"] = kk; return o; };
		if (kind == "CONVERT" || kind == "CRITIC" || kind == "META") {
			Json docs = Json::array(); docs.push(plan.at("docs")[(size_t)op.geti("doc") % plan.at("docs").size()]);
			p["docs"] = docs;
			Json c = op; c["doc"] = 0;
			ops.push(mk("INIT")); ops.push(c); ops.push(mk("DRAIN")); ops.push(mk("FREE"));
		} else if (kind == "CLI") {
			Json docs = Json::array(); Json c = op; Json fl = Json::array();
			for (auto & f : op.at("files").a) { docs.push(plan.at("docs")[(size_t)f.num() % plan.at("docs").size()]); fl.push((int64_t)docs.size() - 1); }
			c["files"] = fl; p["docs"] = docs;
			ops.push(c);
		} else if (kind == "PARSE_HOLD" || kind == "INSPECT" || kind == "RELEASE") {
			// find the parse that filled this slot
			int s = (int)op.geti("slot") % 3;
			Json parse;
			for (int j = k; j >= 0; j--) { const Json & q = plan.at("ops")[(size_t)j]; if (q.gets("k") == "PARSE_HOLD" && (int)q.geti("slot") % 3 == s) { parse = q; break; } }
			if (parse.is_null()) return Json();
			Json docs = Json::array(); docs.push(plan.at("docs")[(size_t)parse.geti("doc") % plan.at("docs").size()]);
			p["docs"] = docs;
			parse["doc"] = 0;
			Json ins = mk("INSPECT"); ins["slot"] = s;
			Json rel = mk("RELEASE"); rel["slot"] = s;
			ops.push(mk("INIT")); ops.push(parse); ops.push(ins); ops.push(rel); ops.push(mk("DRAIN")); ops.push(mk("FREE"));
		} else return Json();
		p["ops"] = ops;
		return p;
	}

	Json judge(const Json & plan, const ChildOutcome & out, Ctx & ctx) override {
		if (out.status != "finished") return Json();
		if (!out.result.at("violation").is_null()) return out.result.at("violation");
		// (iii) clean restart / results unchanged: every CONVERT equals its fresh-process reference
		const Json & ops = plan.at("ops");
		const Json & outs = out.result.at("ops");
		for (size_t k = 0; k < ops.size() && k < outs.size(); k++) {
			if (ops[k].gets("k") != "CONVERT" && ops[k].gets("k") != "CRITIC" && ops[k].gets("k") != "META" && ops[k].gets("k") != "CLI") continue;
			Json iso = isolate(plan, (int)k);
			ChildOutcome r = ctx.run_ref(iso);
			if (r.status != "finished") continue;      // the reference itself fails: input-level, not this property's business
			std::string want = r.result.at("ops")[ops[k].gets("k") == "CLI" ? 0 : 1].gets("out");
			if (want != outs[k].gets("out")) {
				Json v = Json::object();
				v["clause"] = "convert_differs_from_fresh_process"; v["op"] = (int64_t)k;
				v["detail"] = "history gives " + outs[k].gets("out") + ", fresh process gives " + want;
				return v;
			}
		}
		return Json();
	}

	bool nontrivial(const Json &, const Json & result) override {
		const Json & e = result.at("extra");
		return (e.getb("nested") || e.getb("reinit")) && e.geti("max_slabs") > 1;
	}

	std::vector<Json> simplify(const Json & plan) override {
		std::vector<Json> c;
		const Json & kn = plan.at("knobs");
		if (kn.geti("realloc")) { Json p = plan; p["knobs"]["realloc"] = 0; c.push_back(p); }
		if (kn.geti("dstring_start") != 1024) { Json p = plan; p["knobs"]["dstring_start"] = 1024; c.push_back(p); }
		if (kn.geti("slab_objects") != 1024) { Json p = plan; p["knobs"]["slab_objects"] = 1024; c.push_back(p); }
		// shrink documents by halves of their lines
		const Json & docs = plan.at("docs");
		for (size_t d = 0; d < docs.size(); d++) {
			const std::string & s = docs[d].s;
			if (s.size() < 2) continue;
			size_t mid = s.find('\n', s.size() / 2);
			if (mid == std::string::npos || mid + 1 >= s.size()) mid = s.size() / 2;
			Json p = plan; p["docs"][d] = s.substr(0, mid + 1); c.push_back(p);
			Json q = plan; q["docs"][d] = s.substr(mid + 1); c.push_back(q);
		}
		const Json & ops = plan.at("ops");
		for (size_t k = 0; k < ops.size(); k++) {
			if (ops[k].gets("k") != "CONVERT" && ops[k].gets("k") != "PARSE_HOLD") continue;
			if (ops[k].geti("ext") != 0) { Json p = plan; p["ops"][k]["ext"] = 0; c.push_back(p); }
			if (ops[k].has("fmt") && ops[k].geti("fmt") != 0) { Json p = plan; p["ops"][k]["fmt"] = 0; c.push_back(p); }
			if (ops[k].has("lang") && ops[k].geti("lang") != 0) { Json p = plan; p["ops"][k]["lang"] = 0; c.push_back(p); }
		}
		return c;
	}
	Json sample(const Json & plan) override {
		Json s = Json::object();
		s["knobs"] = plan.at("knobs");
		Json ops = Json::array();
		for (auto & o : plan.at("ops").a) { std::string t = o.gets("k"); if (o.has("slot")) t += "(" + std::to_string(o.geti("slot")) + ")"; if (o.has("doc")) t += "[doc" + std::to_string(o.geti("doc")) + (o.has("fmt") ? ",fmt" + std::to_string(o.geti("fmt")) : "") + "]"; ops.push(t); }
		s["ops"] = ops;
		Json dl = Json::array(); for (auto & d : plan.at("docs").a) dl.push((int64_t)d.s.size()); s["doc_bytes"] = dl;
		return s;
	}
};
EngineReg reg(new PoolEngine());
}
#endif
