// Variant T: the library is compiled with -fsanitize=thread (instrumentation only) into
// libmmd_t.so and linked WITHOUT the TSan runtime.  This file supplies the __tsan_* callbacks
// (yield points + input to our own happens-before race detector), the cooperative seeded
// scheduler over real pthreads, and the interposed libc functions with hidden process state.
#if defined(VARIANT_T)
#ifndef _GNU_SOURCE
#define _GNU_SOURCE
#endif
#include <dlfcn.h>
#include <link.h>
#include <pthread.h>
#include <semaphore.h>
#include <stdio.h>
#include <stdlib.h>
#include <string.h>
#include <time.h>
#include <unistd.h>
#include <malloc.h>
#include "core.h"
#include <elf.h>
#include <vector>
#include "thrsim.h"

extern "C" {
	size_t mmd6_verif_dstring_start = 1024;
	size_t mmd6_verif_pool_objects = 1024;
	void * __libc_malloc(size_t);
	void * __libc_calloc(size_t, size_t);
	void * __libc_realloc(void *, size_t);
	void __libc_free(void *);
}

ThrSim g_thr;

// ------------------------------------------------------------------ module info
static uintptr_t lib_base = 0, lib_w_lo = 0, lib_w_hi = 0, lib_lo = 0, lib_hi = 0;
static int phdr_cb(struct dl_phdr_info * info, size_t, void *) {
	if (!info->dlpi_name || !strstr(info->dlpi_name, "libmmd_t")) return 0;
	lib_base = info->dlpi_addr;
	lib_lo = ~(uintptr_t)0;
	for (int i = 0; i < info->dlpi_phnum; i++) {
		const ElfW(Phdr) & ph = info->dlpi_phdr[i];
		if (ph.p_type != PT_LOAD) continue;
		uintptr_t lo = info->dlpi_addr + ph.p_vaddr, hi = lo + ph.p_memsz;
		if (lo < lib_lo) lib_lo = lo;
		if (hi > lib_hi) lib_hi = hi;
		if (ph.p_flags & PF_W) { if (!lib_w_lo || lo < lib_w_lo) lib_w_lo = lo; if (hi > lib_w_hi) lib_w_hi = hi; }
	}
	return 1;
}
struct Labelled;
static const char * label_of(uintptr_t a);
// file-local (static) symbols are not in the dynamic symbol table: read .symtab of the shared object once
struct StaticSym { uintptr_t lo, hi; std::string name; };
static std::vector<StaticSym> * static_syms = nullptr;
static void load_static_syms(const char * path) {
	static_syms = new std::vector<StaticSym>();
	FILE * f = fopen(path, "rb");
	if (!f) return;
	ElfW(Ehdr) eh;
	if (fread(&eh, sizeof eh, 1, f) != 1) { fclose(f); return; }
	std::vector<ElfW(Shdr)> sh(eh.e_shnum);
	fseek(f, (long)eh.e_shoff, SEEK_SET);
	if (fread(sh.data(), sizeof(ElfW(Shdr)), eh.e_shnum, f) != eh.e_shnum) { fclose(f); return; }
	for (auto & s : sh) {
		if (s.sh_type != SHT_SYMTAB || s.sh_link >= sh.size()) continue;
		std::vector<ElfW(Sym)> syms(s.sh_size / sizeof(ElfW(Sym)));
		fseek(f, (long)s.sh_offset, SEEK_SET);
		if (fread(syms.data(), sizeof(ElfW(Sym)), syms.size(), f) != syms.size()) break;
		std::string strtab(sh[s.sh_link].sh_size, '\0');
		fseek(f, (long)sh[s.sh_link].sh_offset, SEEK_SET);
		if (fread(&strtab[0], 1, strtab.size(), f) != strtab.size()) break;
		for (auto & y : syms) {
			int type = ELF64_ST_TYPE(y.st_info);
			if ((type != STT_OBJECT && type != STT_FUNC && type != STT_TLS) || !y.st_value || y.st_name >= strtab.size()) continue;
			static_syms->push_back(StaticSym{(uintptr_t)y.st_value, (uintptr_t)y.st_value + (y.st_size ? y.st_size : 1), std::string(&strtab[y.st_name])});
		}
	}
	fclose(f);
}
std::string thr_symbol(uintptr_t a) {
	Dl_info di;
	if (const char * l = label_of(a)) return l;
	char buf[256];
	if (a >= lib_lo && a < lib_hi) {
		if (dladdr((void *)a, &di) && di.dli_sname) { snprintf(buf, sizeof buf, "%s+0x%lx", di.dli_sname, (unsigned long)(a - (uintptr_t)di.dli_saddr)); return buf; }
		if (!static_syms && dladdr((void *)a, &di) && di.dli_fname) load_static_syms(di.dli_fname);
		if (static_syms) for (auto & y : *static_syms) if (a - lib_base >= y.lo && a - lib_base < y.hi) { snprintf(buf, sizeof buf, "%s+0x%lx", y.name.c_str(), (unsigned long)(a - lib_base - y.lo)); return buf; }
		snprintf(buf, sizeof buf, "libmmd_t.so+0x%lx", (unsigned long)(a - lib_base));
		return buf;
	}
	if (dladdr((void *)a, &di) && di.dli_sname) { snprintf(buf, sizeof buf, "%s+0x%lx", di.dli_sname, (unsigned long)(a - (uintptr_t)di.dli_saddr)); return buf; }
	if (dladdr((void *)a, &di) && di.dli_fname) { const char * b = strrchr(di.dli_fname, '/'); snprintf(buf, sizeof buf, "%s+0x%lx", b ? b + 1 : di.dli_fname, (unsigned long)(a - (uintptr_t)di.dli_fbase)); return buf; }
	return "heap-or-anon";
}

// ------------------------------------------------------------------ shadow memory
struct Cell { uintptr_t key; uint8_t wmask; int8_t wtid; uint8_t rmask[4]; uint32_t wpc; uint32_t rpc[4]; };   // pcs as offsets from lib_lo (0 = outside the library)
static const size_t NCELL = 1u << 21;
static Cell * cells = nullptr;
static size_t cells_used = 0;
static const uintptr_t TOMB = 1;
static uint64_t shadow_overflow = 0;

static inline void cell_clear(Cell * c) { c->key = 0; c->wmask = 0; c->wtid = -1; c->wpc = 0; for (int i = 0; i < 4; i++) { c->rmask[i] = 0; c->rpc[i] = 0; } }   // no libc mem* in tracking paths
static __thread bool in_tracker = false;
struct TrackerScope { bool prev; TrackerScope() : prev(in_tracker) { in_tracker = true; } ~TrackerScope() { in_tracker = prev; } };
// memory with a name of its own (libc static buffers)
struct Labelled { uintptr_t lo, hi; const char * label; };
static Labelled labelled[64]; static int nlabelled = 0;
static void label_range(const void * p, size_t n, const char * label) { uintptr_t a = (uintptr_t)p; for (int i = 0; i < nlabelled; i++) if (labelled[i].lo == a) return; if (nlabelled < 64) labelled[nlabelled++] = Labelled{a, a + n, label}; }
static inline size_t hidx(uintptr_t g) { uint64_t x = g * 0x9e3779b97f4a7c15ULL; return (size_t)(x >> 43) & (NCELL - 1); }
static Cell * cell_find(uintptr_t g, bool insert) {
	size_t i = hidx(g);
	Cell * tomb = nullptr;
	for (size_t n = 0; n < 4096; n++, i = (i + 1) & (NCELL - 1)) {
		Cell & c = cells[i];
		if (c.key == g) return &c;
		if (c.key == TOMB) { if (!tomb) tomb = &c; continue; }
		if (c.key == 0) {
			if (!insert) return nullptr;
			Cell * t = tomb ? tomb : &c;
			if (!tomb) { if (cells_used > NCELL * 6 / 10) { shadow_overflow++; return nullptr; } cells_used++; }
			cell_clear(t);
			t->key = g; t->wtid = -1;
			return t;
		}
	}
	if (insert && tomb) { cell_clear(tomb); tomb->key = g; tomb->wtid = -1; return tomb; }
	return nullptr;
}
static const char * label_of(uintptr_t a) { for (int i = 0; i < nlabelled; i++) if (a >= labelled[i].lo && a < labelled[i].hi) return labelled[i].label; return nullptr; }
void thr_drop_range(const void * p, size_t n) {
	if (!cells || !p || !n || !cells_used) return;
	uintptr_t a = (uintptr_t)p, g0 = a >> 3, g1 = (a + n - 1) >> 3;
	if (g1 - g0 > (1u << 20)) return;
	for (uintptr_t g = g0; g <= g1; g++) { Cell * c = cell_find(g + 2, false); if (c) { c->key = TOMB; } }
}

// ------------------------------------------------------------------ scheduler
static sem_t sem_w[8], sem_main;
static bool done[8];
static uintptr_t stack_lo[8], stack_hi[8];
struct Boot { int tid; thr_body body; void * arg; };

static int pick_other(int me) {
	int cand[8], k = 0;
	for (int t = 0; t < g_thr.nthreads; t++) if (t != me && !done[t]) cand[k++] = t;
	if (!k) return -1;
	return cand[g_thr.sched.below((uint64_t)k)];
}
static void hand_over(int me, int next, uintptr_t site) {
	uint64_t rec[2] = { (uint64_t)next, site >= lib_lo && site < lib_hi ? (uint64_t)(site - lib_lo) : 0 };
	g_thr.schedule_hash = fnv1a(rec, sizeof rec, g_thr.schedule_hash);
	if (g_thr.trace.size() < 4000) { TrackerScope ts; g_thr.trace.emplace_back(next, (uint32_t)rec[1]); }
	g_thr.switches++;
	if (rec[1]) {
		Dl_info di;
		if (dladdr((void *)site, &di) && di.dli_sname) {
			const char * n = di.dli_sname;
			if (!strncmp(n, "ran_", 4)) g_thr.preempt_in_ran_array++;
			else if (!strncmp(n, "mz_", 3) || !strncmp(n, "tdefl", 5) || !strncmp(n, "zip_", 4) || strstr(n, "epub")) g_thr.in_zip_overlap++;
			else if (strstr(n, "html")) g_thr.in_html_export_overlap++;
		}
	}
	g_thr.current = next;
	sem_post(&sem_w[next]);
	if (me >= 0) { while (sem_wait(&sem_w[me]) != 0) {} }
}
void thr_yield_point(uintptr_t site, const char *) {
	if (!g_thr.enabled) return;
	int me = g_thr.current;
	if (me < 0) return;
	g_thr.yield_points++;
	// pre-emption bound: two threads spinning on memory they share would otherwise trade the baton forever at syscall speed;
	// past the bound threads run to completion one after the other, and a spinner meets the access cap at full speed
	if (g_thr.switches >= g_thr.max_switches) return;
	if (!g_thr.sched.chance(g_thr.switch_num, g_thr.switch_den)) return;
	int next = pick_other(me);
	if (next < 0) return;
	hand_over(me, next, site);
}
static void * worker_main(void * p) {
	Boot * b = (Boot *)p;
	int tid = b->tid;
	pthread_attr_t at;
	if (pthread_getattr_np(pthread_self(), &at) == 0) { void * sa; size_t ss; pthread_attr_getstack(&at, &sa, &ss); stack_lo[tid] = (uintptr_t)sa; stack_hi[tid] = (uintptr_t)sa + ss; pthread_attr_destroy(&at); }
	while (sem_wait(&sem_w[tid]) != 0) {}
	b->body(tid, b->arg);
	// finished: pass the baton on
	done[tid] = true;
	int next = pick_other(tid);
	if (next >= 0) { g_thr.current = next; uint64_t rec[2] = {(uint64_t)next, 0xffffffffu}; g_thr.schedule_hash = fnv1a(rec, sizeof rec, g_thr.schedule_hash); sem_post(&sem_w[next]); }
	else { g_thr.current = -1; sem_post(&sem_main); }
	return nullptr;
}
void thr_run(int n, uint64_t seed, thr_body body, void * arg) {
	if (n > 8) n = 8;
	if (!cells) cells = (Cell *)__libc_calloc(NCELL, sizeof(Cell));
	if (!lib_base) dl_iterate_phdr(phdr_cb, nullptr);
	g_thr.nthreads = n;
	g_thr.sched = Rng(seed);
	sem_init(&sem_main, 0, 0);
	pthread_t th[8];
	Boot boots[8];
	for (int t = 0; t < n; t++) { done[t] = false; sem_init(&sem_w[t], 0, 0); boots[t] = Boot{t, body, arg}; }
	pthread_attr_t at;
	pthread_attr_init(&at);
	pthread_attr_setstacksize(&at, 64u << 20);
	for (int t = 0; t < n; t++) pthread_create(&th[t], &at, worker_main, &boots[t]);
	// make sure every worker has recorded its stack range before anything runs
	for (int t = 0; t < n; t++) while (*(volatile uintptr_t *)&stack_hi[t] == 0) sched_yield();
	g_thr.enabled = true;
	int first = (int)g_thr.sched.below((uint64_t)n);
	g_thr.current = first;
	sem_post(&sem_w[first]);
	while (sem_wait(&sem_main) != 0) {}
	g_thr.enabled = false;
	for (int t = 0; t < n; t++) pthread_join(th[t], nullptr);
	for (int t = 0; t < n; t++) { stack_lo[t] = stack_hi[t] = 0; }
}

// ------------------------------------------------------------------ access handling / race detection
static void report_race(uintptr_t addr, int size, int ta, bool wa, uint32_t pca, int tb, bool wb, uintptr_t pcb) {
	if (g_thr.races.size() >= 32) return;
	uintptr_t pa = pca ? lib_lo + pca : 0;
	for (auto & r : g_thr.races) if (r.pc_a == pa && r.pc_b == pcb) return;
	g_thr.races.push_back(RaceReport{addr, size, ta, tb, wa, wb, pa, pcb});
}
static inline bool on_worker_stack(uintptr_t a) {
	for (int t = 0; t < g_thr.nthreads; t++) if (a >= stack_lo[t] && a < stack_hi[t]) return true;
	return false;
}
uint64_t g_thr_step_cap = 0;
void thr_access(uintptr_t addr, int size, bool is_write, uintptr_t pc) {
	if (!g_thr.enabled || in_tracker) return;
	int t = g_thr.current;
	if (t < 0 || t > 3) return;
	g_thr.accesses++;
	if (g_thr_step_cap && g_thr.accesses > g_thr_step_cap) {
		// the simulator's watchdog counts instrumented accesses, never seconds: a thread spinning on corrupted state ends the run deterministically
		if (write(3, "STEPCAP accesses\n", 17)) {}
		_exit(EXIT_STEPCAP);
	}
	bool yield_wanted = false;
	{
	TrackerScope ts;
	if (on_worker_stack(addr)) return;
	bool shared = false;
	uint32_t pcoff = pc >= lib_lo && pc < lib_hi ? (uint32_t)(pc - lib_lo) : 0;
	uintptr_t a = addr, end = addr + (uintptr_t)size;
	while (a < end) {
		uintptr_t g = a >> 3;
		unsigned lo = (unsigned)(a & 7), hi = (unsigned)((end - (g << 3)) > 8 ? 8 : (end - (g << 3)));
		uint8_t mask = (uint8_t)(((1u << hi) - 1) & ~((1u << lo) - 1));
		Cell * c = cell_find(g + 2, true);
		if (c) {
			if ((c->wmask & mask) && c->wtid != t && c->wtid >= 0) { shared = true; report_race(a, size, c->wtid, true, c->wpc, t, is_write, pc); }
			for (int u = 0; u < 4; u++) if (u != t && (c->rmask[u] & mask)) { shared = true; if (is_write) report_race(a, size, u, false, c->rpc[u], t, true, pc); }
			if (is_write) { c->wmask |= mask; c->wtid = (int8_t)t; c->wpc = pcoff; }
			else { c->rmask[t] |= mask; c->rpc[t] = pcoff; }
		}
		a = (g + 1) << 3;
	}
	bool in_lib_data = addr >= lib_w_lo && addr < lib_w_hi;
	if (shared) g_thr.shared_accesses++;
	yield_wanted = shared || in_lib_data;
	}
	if (yield_wanted) thr_yield_point(pc, "access");
}
void thr_range(const void * p, size_t n, bool is_write, uintptr_t pc) {
	if (!g_thr.enabled || g_thr.current < 0 || !p || !n || in_tracker) return;
	uintptr_t a = (uintptr_t)p;
	if (on_worker_stack(a)) return;
	if (n > 65536) n = 65536;
	// granule-wise, without yielding inside the bulk operation
	bool saved = g_thr.enabled;
	uintptr_t end = a + n;
	unsigned sn = g_thr.switch_num; g_thr.switch_num = 0;
	while (a < end) { uintptr_t next = ((a >> 3) + 1) << 3; if (next > end) next = end; thr_access(a, (int)(next - a), is_write, pc); a = next; }
	g_thr.switch_num = sn;
	(void)saved;
}

// ------------------------------------------------------------------ TSan instrumentation callbacks
#define PC ((uintptr_t)__builtin_return_address(0))
extern "C" {
	void __tsan_init() {}
	void __tsan_func_entry(void *) {
		if (!g_thr.enabled || g_thr.current < 0) return;
		g_thr.func_entries++;
		if (g_thr.sched.below(64) == 0) thr_yield_point(PC, "func");
	}
	void __tsan_func_exit() {}
	void __tsan_read1(void * a) { thr_access((uintptr_t)a, 1, false, PC); }
	void __tsan_read2(void * a) { thr_access((uintptr_t)a, 2, false, PC); }
	void __tsan_read4(void * a) { thr_access((uintptr_t)a, 4, false, PC); }
	void __tsan_read8(void * a) { thr_access((uintptr_t)a, 8, false, PC); }
	void __tsan_read16(void * a) { thr_access((uintptr_t)a, 16, false, PC); }
	void __tsan_write1(void * a) { thr_access((uintptr_t)a, 1, true, PC); }
	void __tsan_write2(void * a) { thr_access((uintptr_t)a, 2, true, PC); }
	void __tsan_write4(void * a) { thr_access((uintptr_t)a, 4, true, PC); }
	void __tsan_write8(void * a) { thr_access((uintptr_t)a, 8, true, PC); }
	void __tsan_write16(void * a) { thr_access((uintptr_t)a, 16, true, PC); }
	void __tsan_unaligned_read2(void * a) { thr_access((uintptr_t)a, 2, false, PC); }
	void __tsan_unaligned_read4(void * a) { thr_access((uintptr_t)a, 4, false, PC); }
	void __tsan_unaligned_read8(void * a) { thr_access((uintptr_t)a, 8, false, PC); }
	void __tsan_unaligned_read16(void * a) { thr_access((uintptr_t)a, 16, false, PC); }
	void __tsan_unaligned_write2(void * a) { thr_access((uintptr_t)a, 2, true, PC); }
	void __tsan_unaligned_write4(void * a) { thr_access((uintptr_t)a, 4, true, PC); }
	void __tsan_unaligned_write8(void * a) { thr_access((uintptr_t)a, 8, true, PC); }
	void __tsan_unaligned_write16(void * a) { thr_access((uintptr_t)a, 16, true, PC); }
	void __tsan_read_range(void * a, unsigned long n) { thr_range(a, n, false, PC); }
	void __tsan_write_range(void * a, unsigned long n) { thr_range(a, n, true, PC); }
	void __tsan_vptr_update(void **, void *) {}
	void __tsan_vptr_read(void **) {}
	void __tsan_read1_pc(void * a, void *) { thr_access((uintptr_t)a, 1, false, PC); }
	void __tsan_write1_pc(void * a, void *) { thr_access((uintptr_t)a, 1, true, PC); }

	// ---------------------------------------------------------------- interposed libc (hidden process state)
	void * malloc(size_t n) { return __libc_malloc(n); }
	void * calloc(size_t a, size_t b) { return __libc_calloc(a, b); }
	void free(void * p) { if (p && cells_used) thr_drop_range(p, malloc_usable_size(p)); __libc_free(p); }
	void * realloc(void * p, size_t n) { if (p && cells_used) thr_drop_range(p, malloc_usable_size(p)); return __libc_realloc(p, n); }

	void exit(int code) {
		// the library calls exit() in a few places (html.c default branch, d_string.c on failed realloc): classify instead of vanishing
		if (g_thr.enabled && g_thr.current >= 0) {
			char buf[64];
			int n = snprintf(buf, sizeof buf, "LIBEXIT %d\n", code);
			if (write(3, buf, n)) {}
			_exit(EXIT_LIBEXIT);
		}
		fflush(NULL);
		_exit(code);
	}
	int rand(void) {
		if (g_thr.enabled && g_thr.current >= 0) { g_thr.rand_draws_by[g_thr.current]++; thr_yield_point(PC, "rand"); }
		g_sim.rand_draws++;
		uint64_t x = g_sim.rand_state;
		uint64_t z = splitmix64(x);
		g_sim.rand_state = x;
		return (int)(z >> 33);
	}
	void srand(unsigned seed) {
		if (g_thr.enabled && g_thr.current >= 0) { g_thr.rand_draws_by[g_thr.current]++; thr_yield_point(PC, "srand"); }
		g_sim.srand_calls++;
		g_sim.rand_state = 0x5eed0000ULL + seed;
	}
	time_t time(time_t * t) {
		if (g_thr.enabled && g_thr.current >= 0) { g_thr.time_calls_by[g_thr.current]++; thr_yield_point(PC, "time"); }
		g_sim.time_calls++;
		time_t v = (time_t)g_sim.clock_now;
		if (t) *t = v;
		return v;
	}
	clock_t clock(void) { g_sim.clock_calls++; return (clock_t)(1000 * g_sim.clock_calls); }
	struct tm * localtime(const time_t * t) {
		// libc's static result buffer: a write to process-global state by the calling thread
		static struct tm * (*real)(const time_t *) = nullptr;
		if (!real) real = (struct tm * (*)(const time_t *))dlsym(RTLD_NEXT, "localtime");
		g_sim.localtime_calls++;
		if (g_thr.enabled && g_thr.current >= 0) thr_yield_point(PC, "localtime");
		struct tm * r = real(t);
		label_range(r, sizeof(struct tm), "libc:localtime_static_buffer");
		thr_range(r, sizeof(struct tm), true, PC);
		if (g_thr.enabled && g_thr.current >= 0) thr_yield_point(PC, "localtime-ret");
		return r;
	}
	// The rest of libc's process-global hidden state a C library may be tempted to use.  The unchanged library calls none of
	// them; they are here so that a change which starts to (strtok in a path parser, gmtime/ctime for a date, setlocale around a
	// number format, setenv) is seen as what it is: a write to state shared by all threads.  Result buffers are labelled where
	// libc returns them; state without an address (strtok's saved pointer, the locale, the environment) gets a pseudo-location.
#define HIDDEN_STATE(ret, name, params, args, label, is_write)                                                        \
	ret name params {                                                                                                  \
		static ret (*real) params = nullptr;                                                                           \
		if (!real) real = (ret (*) params)dlsym(RTLD_NEXT, #name);                                                    \
		static char pseudo[8];                                                                                         \
		if (g_thr.enabled && g_thr.current >= 0) { thr_yield_point(PC, #name); label_range(pseudo, sizeof pseudo, label); thr_range(pseudo, sizeof pseudo, is_write, PC); } \
		return real args;                                                                                              \
	}
#define STATIC_RESULT(ret, name, params, args, label, n)                                                              \
	ret name params {                                                                                                  \
		static ret (*real) params = nullptr;                                                                           \
		if (!real) real = (ret (*) params)dlsym(RTLD_NEXT, #name);                                                    \
		if (g_thr.enabled && g_thr.current >= 0) thr_yield_point(PC, #name);                                           \
		ret r = real args;                                                                                             \
		if (r && g_thr.enabled && g_thr.current >= 0) { label_range(r, n, label); thr_range(r, n, true, PC); thr_yield_point(PC, #name "-ret"); } \
		return r;                                                                                                      \
	}
	STATIC_RESULT(struct tm *, gmtime, (const time_t * t), (t), "libc:gmtime_static_buffer", sizeof(struct tm))
	STATIC_RESULT(char *, ctime, (const time_t * t), (t), "libc:ctime_static_buffer", 26)
	STATIC_RESULT(char *, asctime, (const struct tm * t), (t), "libc:asctime_static_buffer", 26)
	HIDDEN_STATE(char *, strtok, (char * str, const char * delim), (str, delim), "libc:strtok_saved_pointer", true)
	HIDDEN_STATE(int, setenv, (const char * n, const char * v, int o), (n, v, o), "libc:environment", true)
	HIDDEN_STATE(int, unsetenv, (const char * n), (n), "libc:environment", true)
	HIDDEN_STATE(int, putenv, (char * str), (str), "libc:environment", true)
	HIDDEN_STATE(char *, tmpnam, (char * buf), (buf), "libc:tmpnam_static_buffer", true)
	HIDDEN_STATE(int, chdir, (const char * path), (path), "libc:working_directory", true)
	HIDDEN_STATE(char *, getcwd, (char * buf, size_t n), (buf, n), "libc:working_directory", false)
	// the file system is shared by all threads too: a file opened for writing is a write to a location named by its path, a file opened for
	// reading a read of it - two conversions that go through a temporary file with a fixed name race on it
	static char fs_pseudo[32][8]; static char fs_names[32][96]; static int fs_n = 0;
	static void fs_access(const char * path, const char * mode, uintptr_t pc) {
		if (!(g_thr.enabled && g_thr.current >= 0) || !path || !mode) return;
		char name[96]; snprintf(name, sizeof name, "file:%s", path);
		int i = 0; for (; i < fs_n; i++) if (strcmp(fs_names[i], name) == 0) break;
		if (i == fs_n) { if (fs_n == 32) return; strcpy(fs_names[fs_n++], name); }
		bool wr = mode[0] == 'w' || mode[0] == 'a' || strchr(mode, '+') != nullptr;
		thr_yield_point(pc, "fopen");
		label_range(fs_pseudo[i], 8, fs_names[i]);
		thr_range(fs_pseudo[i], 8, wr, pc);
	}
	FILE * fopen(const char * path, const char * mode) {
		static FILE * (*real)(const char *, const char *) = nullptr;
		if (!real) real = (FILE * (*)(const char *, const char *))dlsym(RTLD_NEXT, "fopen");
		fs_access(path, mode, PC);
		return real(path, mode);
	}
	FILE * fopen64(const char * path, const char * mode) {
		static FILE * (*real)(const char *, const char *) = nullptr;
		if (!real) real = (FILE * (*)(const char *, const char *))dlsym(RTLD_NEXT, "fopen64");
		fs_access(path, mode, PC);
		return real(path, mode);
	}
	char * setlocale(int cat, const char * loc) {
		static char * (*real)(int, const char *) = nullptr;
		if (!real) real = (char * (*)(int, const char *))dlsym(RTLD_NEXT, "setlocale");
		static char pseudo[8];
		if (g_thr.enabled && g_thr.current >= 0) { thr_yield_point(PC, "setlocale"); label_range(pseudo, sizeof pseudo, "libc:global_locale"); thr_range(pseudo, sizeof pseudo, loc != nullptr, PC); }
		return real(cat, loc);
	}
}

// bulk libc copies into possibly shared memory: report their ranges (most of the uninstrumented-libc blind spot)
static void * (*real_memcpy)(void *, const void *, size_t) = nullptr;
static void * (*real_memmove)(void *, const void *, size_t) = nullptr;
static void * (*real_memset)(void *, int, size_t) = nullptr;
static char * (*real_strcpy)(char *, const char *) = nullptr;
static char * (*real_strncpy)(char *, const char *, size_t) = nullptr;
static char * (*real_strcat)(char *, const char *) = nullptr;
static char * (*real_strncat)(char *, const char *, size_t) = nullptr;
void thr_init_interposers() {
	real_memcpy = (void * (*)(void *, const void *, size_t))dlsym(RTLD_NEXT, "memcpy");
	real_memmove = (void * (*)(void *, const void *, size_t))dlsym(RTLD_NEXT, "memmove");
	real_memset = (void * (*)(void *, int, size_t))dlsym(RTLD_NEXT, "memset");
	real_strcpy = (char * (*)(char *, const char *))dlsym(RTLD_NEXT, "strcpy");
	real_strncpy = (char * (*)(char *, const char *, size_t))dlsym(RTLD_NEXT, "strncpy");
	real_strcat = (char * (*)(char *, const char *))dlsym(RTLD_NEXT, "strcat");
	real_strncat = (char * (*)(char *, const char *, size_t))dlsym(RTLD_NEXT, "strncat");
}
#define TRACK (g_thr.enabled && g_thr.current >= 0)
extern "C" {
	void * memcpy(void * d, const void * s, size_t n) {
		if (!real_memcpy) { volatile char * dd = (volatile char *)d; const volatile char * ss = (const volatile char *)s; for (size_t i = 0; i < n; i++) dd[i] = ss[i]; return d; }
		if (TRACK) { thr_range(s, n, false, PC); thr_range(d, n, true, PC); }
		return real_memcpy(d, s, n);
	}
	void * memmove(void * d, const void * s, size_t n) {
		if (!real_memmove) { volatile char * dd = (volatile char *)d; const volatile char * ss = (const volatile char *)s; if (dd < ss) for (size_t i = 0; i < n; i++) dd[i] = ss[i]; else for (size_t i = n; i > 0; i--) dd[i - 1] = ss[i - 1]; return d; }
		if (TRACK) { thr_range(s, n, false, PC); thr_range(d, n, true, PC); }
		return real_memmove(d, s, n);
	}
	void * memset(void * d, int c, size_t n) {
		if (!real_memset) { volatile char * dd = (volatile char *)d; for (size_t i = 0; i < n; i++) dd[i] = (char)c; return d; }
		if (TRACK) thr_range(d, n, true, PC);
		return real_memset(d, c, n);
	}
	char * strcpy(char * d, const char * s) {
		if (!real_strcpy) { size_t i = 0; do { ((volatile char *)d)[i] = s[i]; } while (s[i++]); return d; }
		if (TRACK) { size_t n = strlen(s) + 1; thr_range(s, n, false, PC); thr_range(d, n, true, PC); }
		return real_strcpy(d, s);
	}
	char * strncpy(char * d, const char * s, size_t n) {
		if (!real_strncpy) { size_t i = 0; for (; i < n && s[i]; i++) ((volatile char *)d)[i] = s[i]; for (; i < n; i++) ((volatile char *)d)[i] = 0; return d; }
		if (TRACK) { thr_range(s, strnlen(s, n), false, PC); thr_range(d, n, true, PC); }
		return real_strncpy(d, s, n);
	}
	char * strcat(char * d, const char * s) {
		if (!real_strcat) { size_t l = strlen(d), i = 0; do { ((volatile char *)d)[l + i] = s[i]; } while (s[i++]); return d; }
		if (TRACK) { size_t l = strlen(d), n = strlen(s) + 1; thr_range(s, n, false, PC); thr_range(d + l, n, true, PC); }
		return real_strcat(d, s);
	}
	char * strncat(char * d, const char * s, size_t n) {
		if (!real_strncat) { size_t l = strlen(d), i = 0; for (; i < n && s[i]; i++) ((volatile char *)d)[l + i] = s[i]; ((volatile char *)d)[l + i] = 0; return d; }
		if (TRACK) { size_t l = strlen(d), m = strnlen(s, n); thr_range(s, m, false, PC); thr_range(d + l, m + 1, true, PC); }
		return real_strncat(d, s, n);
	}
}
uint64_t thr_shadow_overflow() { return shadow_overflow; }
std::string thr_symbol_off(uint32_t off) { return off ? thr_symbol(lib_lo + off) : std::string("-"); }
#endif
