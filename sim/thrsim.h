// Cooperative seeded scheduler over real pthreads + happens-before race detector, fed by the
// -fsanitize=thread instrumentation of the library (variant T).  DESIGN.md 4.5.
#pragma once
#include <cstdint>
#include <string>
#include <vector>
#include "core.h"

struct RaceReport {
	uintptr_t addr; int size;
	int tid_a, tid_b; bool write_a, write_b;
	uintptr_t pc_a, pc_b;
};

struct ThrSim {
	bool enabled = false;            // workers running: callbacks do work
	int nthreads = 0;
	int current = -1;                // worker id that holds the baton (-1: main)
	Rng sched{1};
	unsigned switch_num = 1, switch_den = 3;   // probability of handing over at a yield point
	uint64_t max_switches = 200000;
	uint64_t yield_points = 0, switches = 0, accesses = 0, shared_accesses = 0, func_entries = 0;
	uint64_t schedule_hash = 1469598103934665603ULL;
	std::vector<RaceReport> races;
	std::vector<std::pair<int, uint32_t>> trace;      // first hand-overs: (thread that receives the baton, code offset in the library where the giver was pre-empted)
	uint64_t rand_draws_by[8] = {0}, time_calls_by[8] = {0};
	// probes
	uint64_t in_html_export_overlap = 0, in_zip_overlap = 0, preempt_in_ran_array = 0;
};
extern ThrSim g_thr;

typedef void (*thr_body)(int tid, void * arg);
void thr_run(int nthreads, uint64_t schedule_seed, thr_body body, void * arg);   // runs the workers to completion under the scheduler
void thr_yield_point(uintptr_t site, const char * why);                          // may hand the baton to another worker
void thr_access(uintptr_t addr, int size, bool is_write, uintptr_t pc);
void thr_range(const void * p, size_t n, bool is_write, uintptr_t pc);           // bulk libc access
void thr_drop_range(const void * p, size_t n);                                   // free()/realloc(): forget accesses
std::string thr_symbol(uintptr_t a);                                             // "symbol+off" via dladdr, or module+offset
