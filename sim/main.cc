// mmdsim: controller / worker / run-child process model, shrinking, replay.
// DESIGN.md 3.3 - 3.6.
#ifndef _GNU_SOURCE
#define _GNU_SOURCE
#endif
#include <errno.h>
#include <fcntl.h>
#include <poll.h>
#include <pthread.h>
#include <signal.h>
#include <stdio.h>
#include <stdlib.h>
#include <string.h>
#include <sys/mman.h>
#include <sys/stat.h>
#include <sys/time.h>
#include <sys/wait.h>
#include <time.h>
#include <unistd.h>
#include <algorithm>
#include <fstream>
#include <sstream>
#include <unordered_map>
#include <unordered_set>
#include "core.h"

EventLog g_log;
Sim g_sim;

// ---------------------------------------------------------------- step counter
// Library objects are compiled with -fsanitize-coverage=trace-pc-guard (variants A/B): every
// basic-block edge calls in here.  The count is the simulator's watchdog ("steps", never
// seconds) and the guard ids give an edge-coverage measure.
uint64_t g_steps = 0, g_step_cap = 0;
static std::vector<uint8_t> * g_edges = nullptr;
static uint32_t g_nguards = 0;
extern "C" {
	void __sanitizer_cov_trace_pc_guard_init(uint32_t * start, uint32_t * stop) {
		if (start == stop || *start) return;
		for (uint32_t * x = start; x < stop; x++) *x = ++g_nguards;
	}
	void __sanitizer_cov_trace_pc_guard(uint32_t * guard) {
		if (!g_sim.active) return;
		g_steps++;
		if (g_edges) { uint32_t g = *guard; if (g < g_edges->size()) (*g_edges)[g] = 1; }
		if (g_step_cap && g_steps > g_step_cap) {
			if (write(3, "STEPCAP steps\n", 14)) {}
			_exit(EXIT_STEPCAP);
		}
	}
}

// ---------------------------------------------------------------- registry / helpers
static std::vector<Engine *> & engines() { static std::vector<Engine *> v; return v; }
void register_engine(Engine * e) { engines().push_back(e); }
Engine * engine_by_name(const std::string & n) { for (auto e : engines()) if (n == e->name()) return e; return nullptr; }

void child_mark_op(int k) {
	char buf[32];
	int n = snprintf(buf, sizeof buf, "OP %d\n", k);
	if (write(3, buf, n)) {}
}
std::string digest(const std::string & b) { return std::to_string(b.size()) + ":" + hex64(fnv_str(b)); }

Json env_to_json() {
	Json e = Json::object();
	e["time_calls"] = g_sim.time_calls; e["clock_calls"] = g_sim.clock_calls; e["localtime_calls"] = g_sim.localtime_calls;
	e["rand_draws"] = g_sim.rand_draws; e["srand_calls"] = g_sim.srand_calls;
	e["mallocs"] = g_sim.mallocs; e["reallocs"] = g_sim.reallocs; e["realloc_moved"] = g_sim.realloc_moved;
	e["fopen_calls"] = g_sim.fopen_calls; e["bytes_delivered"] = g_sim.bytes_delivered;
	e["steps"] = g_steps;
	return e;
}

static double now_s() { struct timespec ts; clock_gettime(CLOCK_MONOTONIC, &ts); return ts.tv_sec + ts.tv_nsec * 1e-9; }
static std::string read_file(const std::string & p) { std::ifstream f(p, std::ios::binary); std::stringstream ss; ss << f.rdbuf(); return ss.str(); }
static void write_file(const std::string & p, const std::string & s) { std::ofstream f(p, std::ios::binary | std::ios::trunc); f << s; }

// ---------------------------------------------------------------- run-child
struct ExecArgs { Engine * eng; const Json * plan; bool verbose; Json result; };
static void * exec_thread(void * a) {
	ExecArgs * x = (ExecArgs *)a;
	// allocator perturbation common to every engine of variants A/B: plan["knobs"]["malloc_fill"]
	if (x->plan->has("knobs") && x->plan->at("knobs").is_obj()) g_sim.malloc_fill = (int)x->plan->at("knobs").geti("malloc_fill", 0);
	x->result = x->eng->execute(*x->plan, x->verbose);
	return nullptr;
}

static size_t g_child_stack_mb = 256;
static int g_child_timeout_s = 120;

static void child_main(Engine * eng, const Json & plan, bool verbose, int wfd, int efd) {
	dup2(wfd, 3);
	if (wfd != 3) close(wfd);
	dup2(efd, 2);
	int dn = open("/dev/null", O_WRONLY);
	if (dn >= 0) dup2(dn, 1);
	int dn0 = open("/dev/null", O_RDONLY);      // nothing a run does may block on the real stdin
	if (dn0 >= 0) dup2(dn0, 0);
	std::vector<uint8_t> edges(g_nguards + 2, 0);
	g_edges = &edges;
	g_log = EventLog();
	g_steps = 0;
	g_step_cap = (uint64_t)plan.geti("step_cap", 0);
	if (!g_step_cap) g_step_cap = eng->default_step_cap();
	g_sim.active = true;
	ExecArgs x{eng, &plan, verbose, Json()};
	// run on a thread with a large stack, so that ASan's enlarged frames cannot turn deep
	// but legal recursion into a false alarm
	pthread_attr_t at;
	pthread_attr_init(&at);
	pthread_attr_setstacksize(&at, g_child_stack_mb << 20);
	pthread_t th;
	if (pthread_create(&th, &at, exec_thread, &x) != 0) { exec_thread(&x); }
	else pthread_join(th, nullptr);
	g_sim.active = false;
	Json & r = x.result;
	if (!r.is_obj()) r = Json::object();
	r["log_hash"] = hex64(g_log.h);
	r["log_events"] = g_log.n;
	r["env"] = env_to_json();
	Json fired = Json::object();
	for (auto & kv : g_sim.fired) fired[kv.first] = kv.second;
	if (g_sim.garbage_fills) fired["fresh_heap_garbage"] = (int64_t)g_sim.garbage_fills;
	r["fired"] = fired;
	Json probes = r.has("probes") ? r["probes"] : Json::object();
	for (auto & kv : g_sim.probes) probes[kv.first] = probes.geti(kv.first) + (int64_t)kv.second;
	r["probes"] = probes;
	// edge coverage as a compact list of covered guard ids hashed into 64 buckets of bits
	uint64_t covered = 0;
	std::string bits((g_nguards + 8) / 8, '\0');
	for (uint32_t g = 1; g <= g_nguards && g < edges.size(); g++) if (edges[g]) { covered++; bits[g / 8] |= (char)(1 << (g % 8)); }
	r["edges_covered"] = covered;
	std::string line = "RESULT " + r.dump() + "\n";
	size_t off = 0;
	while (off < line.size()) { ssize_t w = write(3, line.data() + off, line.size() - off); if (w <= 0) break; off += (size_t)w; }
	// coverage bitmap as a separate record (binary-safe through latin-1 escaping is wasteful; hex is fine)
	std::string cov = "COV ";
	static const char * hx = "0123456789abcdef";
	for (unsigned char c : bits) { cov.push_back(hx[c >> 4]); cov.push_back(hx[c & 15]); }
	cov.push_back('\n');
	off = 0;
	while (off < cov.size()) { ssize_t w = write(3, cov.data() + off, cov.size() - off); if (w <= 0) break; off += (size_t)w; }
	_exit(0);
}

static std::vector<uint8_t> g_cov_union;    // worker-level union of covered edges

static ChildOutcome spawn_child(Engine * eng, const Json & plan, bool verbose) {
	ChildOutcome out;
	int pfd[2];
	if (pipe(pfd) != 0) { out.status = "harness"; return out; }
	int efd = memfd_create("mmdsim-stderr", 0);
	fflush(stdout); fflush(stderr);
	pid_t pid = fork();
	if (pid == 0) {
		close(pfd[0]);
		child_main(eng, plan, verbose, pfd[1], efd);
		_exit(EXIT_HARNESS);
	}
	close(pfd[1]);
	std::string buf;
	char tmp[65536];
	double deadline = now_s() + g_child_timeout_s;
	bool timed_out = false;
	for (;;) {
		struct pollfd p = { pfd[0], POLLIN, 0 };
		double left = deadline - now_s();
		if (left <= 0) { timed_out = true; break; }
		int pr = poll(&p, 1, (int)(left * 1000) + 1);
		if (pr < 0 && errno == EINTR) continue;
		if (pr == 0) { timed_out = true; break; }
		ssize_t n = read(pfd[0], tmp, sizeof tmp);
		if (n < 0 && errno == EINTR) continue;
		if (n <= 0) break;
		buf.append(tmp, (size_t)n);
	}
	close(pfd[0]);
	if (timed_out) kill(pid, SIGKILL);
	int st = 0;
	while (waitpid(pid, &st, 0) < 0 && errno == EINTR) {}
	// stderr head
	off_t sz = lseek(efd, 0, SEEK_END);
	if (sz > 0) {
		size_t want = sz > 16384 ? 16384 : (size_t)sz;
		out.stderr_head.resize(want);
		if (pread(efd, &out.stderr_head[0], want, 0) < 0) out.stderr_head.clear();
	}
	close(efd);
	// parse the protocol
	size_t pos = 0;
	std::string special;
	while (pos < buf.size()) {
		size_t nl = buf.find('\n', pos);
		if (nl == std::string::npos) nl = buf.size();
		if (!buf.compare(pos, 3, "OP ")) out.last_op = atoi(buf.c_str() + pos + 3);
		else if (!buf.compare(pos, 7, "RESULT ")) { Json r; if (Json::parse(buf.substr(pos + 7, nl - pos - 7), r)) out.result = r; }
		else if (!buf.compare(pos, 4, "COV ")) {
			size_t nbytes = (nl - pos - 4) / 2;
			if (g_cov_union.size() < nbytes) g_cov_union.resize(nbytes, 0);
			auto hv = [](char c) { return c <= '9' ? c - '0' : c - 'a' + 10; };
			for (size_t i = 0; i < nbytes; i++) g_cov_union[i] |= (uint8_t)((hv(buf[pos + 4 + 2 * i]) << 4) | hv(buf[pos + 5 + 2 * i]));
		}
		else if (!buf.compare(pos, 8, "LIBEXIT ") || !buf.compare(pos, 8, "STEPCAP ")) special = buf.substr(pos, nl - pos);
		pos = nl + 1;
	}
	if (timed_out) out.status = "timeout";
	else if (WIFSIGNALED(st)) { out.status = "signal"; out.sig = WTERMSIG(st); }
	else {
		int ec = WEXITSTATUS(st);
		if (ec == 0 && !out.result.is_null()) out.status = "finished";
		else if (ec == EXIT_ASAN || ec == 1) {
			if (out.stderr_head.find("AddressSanitizer") != std::string::npos) out.status = "asan";
			else if (out.stderr_head.find("runtime error") != std::string::npos) out.status = "ubsan";
			else out.status = ec == EXIT_ASAN ? "asan" : "harness";
		}
		else if (ec == EXIT_LIBEXIT) out.status = "lib_exit";
		else if (ec == EXIT_STEPCAP) out.status = "stepcap";
		else out.status = "harness";
	}
	if (!special.empty()) out.stderr_head = special + "\n" + out.stderr_head;
	return out;
}

// a short, stable description of a sanitizer report: kind + first library frame
static std::string crash_signature(const ChildOutcome & o) {
	const std::string & e = o.stderr_head;
	std::string kind = o.status;
	size_t p = e.find("ERROR: AddressSanitizer: ");
	if (p != std::string::npos) { size_t q = e.find_first_of(" \n", p + 25); kind = "asan:" + e.substr(p + 25, q - p - 25); }
	else if ((p = e.find("runtime error: ")) != std::string::npos) { size_t q = e.find('\n', p); kind = "ubsan:" + e.substr(p + 15, std::min<size_t>(q - p - 15, 60)); }
	else if (o.status == "signal") kind = "signal:" + std::to_string(o.sig);
	else if (o.status == "lib_exit" || o.status == "stepcap") { size_t q = e.find('\n'); kind = e.substr(0, q); }
	std::string where;
	size_t f = 0;
	while ((f = e.find(" in ", f)) != std::string::npos) {
		size_t q = e.find_first_of(" \n", f + 4);
		std::string fn = e.substr(f + 4, q - f - 4);
		size_t l = e.find('\n', f);
		std::string rest = e.substr(f, l - f);
		if (rest.find("/src/") != std::string::npos && rest.find("/sim/") == std::string::npos) { where = fn; break; }
		f += 4;
	}
	// pointer values are not part of a signature
	std::string k2;
	for (size_t i = 0; i < kind.size(); i++) {
		if (kind[i] == '0' && i + 1 < kind.size() && kind[i + 1] == 'x') { k2 += "0xX"; i += 2; while (i < kind.size() && isxdigit((unsigned char)kind[i])) i++; i--; }
		else k2.push_back(kind[i]);
	}
	return k2 + (where.empty() ? "" : "@" + where);
}

// ---------------------------------------------------------------- worker
struct Worker {
	Engine * eng;
	Ctx ctx;
	std::unordered_map<uint64_t, ChildOutcome> memo;
	uint64_t children = 0;

	Worker(Engine * e) : eng(e) {
		ctx.run_child = [this](const Json & p, bool v) { children++; return spawn_child(eng, p, v); };
		ctx.run_ref = [this](const Json & p_in) {
			// a reference is "the same thing done first in a fresh process": its heap is pristine, so the allocator perturbation that fills fresh
			// memory with history-dependent garbage is off there (whatever the library reads without having written it then differs between the
			// history and its reference, instead of being equally wrong in both)
			Json p = p_in;
			if (p.has("knobs") && p.at("knobs").is_obj() && p.at("knobs").has("malloc_fill")) p["knobs"]["malloc_fill"] = 0;
			// ... and errno is 0 there: a stale errno is history too
			if (p.has("ops") && p.at("ops").is_arr()) for (auto & op : p["ops"].a) if (op.is_obj() && op.has("env") && op.at("env").is_obj() && op.at("env").has("errno")) op["env"].erase("errno");
			if (p.has("env") && p.at("env").is_obj() && p.at("env").has("errno")) p["env"].erase("errno");
			uint64_t h = fnv_str(p.dump());
			auto it = memo.find(h);
			if (it != memo.end()) { ctx.refs_memo++; return it->second; }
			ctx.refs_run++; children++;
			ChildOutcome o = spawn_child(eng, p, false);
			if (memo.size() > 20000) memo.clear();
			memo[h] = o;
			return o;
		};
	}

	// Full verdict for one plan. Returns null (held), {"out_of_scope":..} or a violation object.
	Json evaluate(const Json & plan_in, ChildOutcome * outp = nullptr, bool verbose = false) {
		Json plan = plan_in;
		eng->prepare(plan, ctx);
		ChildOutcome out = ctx.run_child(plan, verbose);
		if (outp) *outp = out;
		if (out.status == "timeout" || out.status == "harness") {
			Json h = Json::object(); h["harness"] = out.status; h["stderr"] = out.stderr_head.substr(0, 2000); return h;
		}
		if (out.status != "finished") {
			// engines may claim some abnormal ends themselves (C13: step cap == non-termination; C17: failure only under overlap)
			Json v = eng->judge(plan, out, ctx);
			if (!v.is_null()) return v;
			std::string sig = crash_signature(out);
			if (eng->crash_in_scope()) {
				Json viol = Json::object(); viol["clause"] = "crash"; viol["detail"] = sig; viol["op"] = out.last_op; return viol;
			}
			// attribution (DESIGN 3.5): does the same operation fail when it is the first thing a fresh process does?
			Json iso = out.last_op >= 0 ? eng->isolate(plan, out.last_op) : Json();
			if (!iso.is_null()) {
				// an engine may name several candidate isolations ("any_of"): one failing alone is enough to call the failure input-level
				std::vector<Json> cands;
				if (iso.has("any_of")) cands = iso.at("any_of").a; else cands.push_back(iso);
				for (auto & c : cands) {
					ChildOutcome r = ctx.run_ref(c);
					if (r.status != "finished") { Json oos = Json::object(); oos["out_of_scope"] = sig; oos["op"] = out.last_op; return oos; }
				}
				Json viol = Json::object(); viol["clause"] = "crash_in_context"; viol["detail"] = sig; viol["op"] = out.last_op; return viol;
			}
			Json oos = Json::object(); oos["out_of_scope"] = sig; oos["op"] = out.last_op; return oos;
		}
		return eng->judge(plan, out, ctx);
	}

	static bool is_violation(const Json & v) { return v.is_obj() && v.has("clause"); }
	static std::string vclass(const Json & v) { std::string c = v.gets("clause"); if (v.has("class")) c += "/" + v.gets("class"); return c; }

	// ddmin over plan["ops"], then engine-specific simplifications; same violation class must persist
	Json shrink(const Json & plan0, const Json & viol0, int budget, int * used, double max_seconds = 0) {
		// max_seconds bounds how long minimisation may take; it only decides how small the replay gets - whatever plan is
		// current when time runs out is confirmed twice in fresh processes like any other, so the verdict never depends on it
		double stop_at = max_seconds > 0 ? now_s() + max_seconds : 0;
		Json plan = plan0;
		std::string want = vclass(viol0);
		int runs = 0;
		std::unordered_set<uint64_t> tried;
		tried.insert(fnv_str(plan0.dump()));
		auto test = [&](Json cand) -> bool {
			if (runs >= budget) return false;
			if (stop_at && now_s() > stop_at) { runs = budget; return false; }
			if (!eng->fixup(cand)) return false;
			// a candidate must be strictly simpler (fixup may re-add closing operations) and new
			std::string cd = cand.dump(), pd = plan.dump();
			if (cd == pd || cand.at("ops").size() > plan.at("ops").size()) return false;
			if (!tried.insert(fnv_str(cd)).second) return false;
			runs++;
			Json v = evaluate(cand);
			if (is_violation(v) && vclass(v) == want) { plan = cand; return true; }
			return false;
		};
		bool progress = true;
		while (progress && runs < budget) {
			progress = false;
			// ddmin on the operation list
			size_t n = plan.at("ops").size();
			size_t chunk = n / 2;
			while (chunk >= 1 && runs < budget) {
				bool removed = false;
				for (size_t start = 0; start < plan.at("ops").size() && runs < budget;) {
					Json cand = plan;
					Json & ops = cand["ops"];
					size_t end = std::min(start + chunk, ops.a.size());
					if (end <= start || ops.a.size() - (end - start) < 1) { start += chunk; continue; }
					ops.a.erase(ops.a.begin() + start, ops.a.begin() + end);
					if (test(cand)) { removed = true; progress = true; } else start += chunk;
				}
				if (!removed) chunk /= 2;
				else chunk = std::min(chunk, plan.at("ops").size() / 2 ? plan.at("ops").size() / 2 : (size_t)1);
				if (plan.at("ops").size() <= 1) break;
			}
			// engine-specific simplifications, greedy until fixpoint
			bool again = true;
			while (again && runs < budget) {
				again = false;
				for (auto & cand : eng->simplify(plan)) {
					if (runs >= budget) break;
					if (cand == plan) continue;
					if (test(cand)) { again = true; progress = true; break; }
				}
			}
		}
		if (used) *used = runs;
		return plan;
	}
};

static uint64_t run_seed_for(uint64_t base, const std::string & engine, uint64_t index) {
	return mix2(mix2(base, fnv_str(engine)), index) & 0x7fffffffffffffffULL;
}

struct Opts {
	std::string engine, tier = "quick", out = "/verif/out", variant = "?", src_hash = "?";
	uint64_t seed = 20261001, runs = 1000, start = 0;
	int workers = 16, recheck_pct = 2, max_seconds = 0, shrink_budget = 300, max_viol_per_worker = 2, shrink_seconds = 150;
	bool no_shrink = false;
};

static std::string variant_name() {
#if defined(VARIANT_A)
	return "A";
#elif defined(VARIANT_B)
	return "B";
#else
	return "T";
#endif
}

static Json make_replay(const Opts & o, Engine * eng, uint64_t run_seed, uint64_t index, const Json & plan, const Json & viol, const std::string & log_hash) {
	Json r = Json::object();
	r["property"] = eng->property(); r["engine"] = eng->name(); r["variant"] = variant_name();
	r["src_hash"] = o.src_hash; r["base_seed"] = o.seed; r["run_index"] = index; r["run_seed"] = run_seed; r["tier"] = o.tier;
	r["violation"] = viol; r["event_log_hash"] = log_hash; r["plan"] = plan;
	return r;
}

static int worker_main(const Opts & o, int w, Engine * eng) {
	Worker wk(eng);
	std::string path = o.out + "/worker-" + variant_name() + "-" + std::to_string(w) + ".jsonl";
	FILE * f = fopen(path.c_str(), "w");
	if (!f) return 2;
	double deadline = o.max_seconds ? now_s() + o.max_seconds : 0;
	int violations = 0;
	std::unordered_set<uint64_t> states;
	uint64_t done = 0;
	for (uint64_t i = o.start + (uint64_t)w; i < o.start + o.runs; i += (uint64_t)o.workers) {
		if (deadline && now_s() > deadline) break;
		uint64_t rs = run_seed_for(o.seed, eng->name(), i);
		Json plan = eng->plan(rs, o.tier);
		ChildOutcome out;
		Json v = wk.evaluate(plan, &out);
		Json rec = Json::object();
		rec["i"] = i; rec["seed"] = rs; rec["status"] = out.status;
		rec["plan_hash"] = hex64(fnv_str(plan.dump()));
		rec["nops"] = (int64_t)plan.at("ops").size();
		if (!out.result.is_null()) {
			rec["log_hash"] = out.result.gets("log_hash");
			rec["nontrivial"] = eng->nontrivial(plan, out.result);
			rec["fired"] = out.result.at("fired"); rec["probes"] = out.result.at("probes"); rec["env"] = out.result.at("env");
			rec["ops_executed"] = out.result.geti("ops_executed", (int64_t)plan.at("ops").size());
			for (auto & s : out.result.at("states").a) states.insert(fnv_str(s.s));
			if (out.result.has("schedule_hash")) rec["schedule_hash"] = out.result.at("schedule_hash");
			if (out.result.has("extra")) rec["extra"] = out.result.at("extra");
		}
		if (done < 3) rec["sample"] = eng->sample(plan);
		// determinism re-check on a fixed subset of runs
		if (o.recheck_pct > 0 && out.status == "finished" && (mix2(rs, 77) % 100) < (uint64_t)o.recheck_pct) {
			ChildOutcome again = wk.ctx.run_child(plan, false);
			rec["recheck"] = true;
			if (again.status != out.status || again.result.gets("log_hash") != out.result.gets("log_hash")) rec["recheck_mismatch"] = true;
		}
		if (v.is_obj() && v.has("harness")) { rec["harness"] = v; }
		else if (v.is_obj() && v.has("out_of_scope")) {
			rec["out_of_scope"] = v;
			std::string p = o.out + "/out_of_scope";
			mkdir(p.c_str(), 0755);
			Json keep = Json::object(); keep["plan"] = plan; keep["what"] = v;
			write_file(p + "/" + std::string(eng->property()) + "-" + std::to_string(i) + ".json", keep.dump());
		}
		else if (Worker::is_violation(v)) {
			violations++;
			Json plan_min = plan;
			int used = 0;
			if (!o.no_shrink) plan_min = wk.shrink(plan, v, violations == 1 ? o.shrink_budget : o.shrink_budget / 3, &used, violations == 1 ? o.shrink_seconds : o.shrink_seconds / 3);
			// confirm twice in fresh processes: same class, same event-log hash
			ChildOutcome c1, c2;
			Json v1 = wk.evaluate(plan_min, &c1), v2 = wk.evaluate(plan_min, &c2);
			bool same = Worker::is_violation(v1) && Worker::is_violation(v2) && Worker::vclass(v1) == Worker::vclass(v2) &&
						Worker::vclass(v1) == Worker::vclass(v) && c1.status == c2.status && c1.result.gets("log_hash") == c2.result.gets("log_hash");
			if (!same) {
				rec["nondeterministic_violation"] = true; rec["violation"] = v;
			} else {
				std::string dir = o.out + "/violations";
				mkdir(dir.c_str(), 0755);
				std::string rp = dir + "/" + eng->property() + "-" + variant_name() + "-" + std::to_string(o.seed) + "-" + std::to_string(i) + ".json";
				write_file(rp, make_replay(o, eng, rs, i, plan_min, v1, c1.result.gets("log_hash")).dump() + "\n");
				rec["violation"] = v1; rec["replay"] = rp; rec["shrink_runs"] = used;
				rec["ops_before"] = (int64_t)plan.at("ops").size(); rec["ops_after"] = (int64_t)plan_min.at("ops").size();
			}
		}
		std::string line = rec.dump();
		fputs(line.c_str(), f); fputc('\n', f); fflush(f);
		done++;
		if (violations >= o.max_viol_per_worker) break;
	}
	Json tail = Json::object();
	tail["worker_done"] = w; tail["runs"] = done; tail["children"] = wk.children; tail["refs_run"] = wk.ctx.refs_run; tail["refs_memo"] = wk.ctx.refs_memo;
	Json st = Json::array();
	for (auto h : states) st.push(hex64(h));
	tail["states"] = st;
	std::string cov;
	static const char * hx = "0123456789abcdef";
	for (unsigned char c : g_cov_union) { cov.push_back(hx[c >> 4]); cov.push_back(hx[c & 15]); }
	tail["cov"] = cov; tail["nguards"] = g_nguards;
	fputs(tail.dump().c_str(), f); fputc('\n', f);
	fclose(f);
	return 0;
}

static int cmd_run(const Opts & o) {
	Engine * eng = engine_by_name(o.engine);
	if (!eng) { fprintf(stderr, "unknown engine %s\n", o.engine.c_str()); return 2; }
	mkdir(o.out.c_str(), 0755);
	printf("VERIF_SEED=%llu engine=%s property=%s variant=%s tier=%s runs=%llu workers=%d\n", (unsigned long long)o.seed, eng->name(), eng->property(), variant_name().c_str(), o.tier.c_str(), (unsigned long long)o.runs, o.workers);
	fflush(stdout);
	std::vector<pid_t> pids;
	for (int w = 0; w < o.workers; w++) {
		pid_t p = fork();
		if (p == 0) { _exit(worker_main(o, w, eng)); }
		pids.push_back(p);
	}
	int bad = 0;
	for (auto p : pids) { int st = 0; while (waitpid(p, &st, 0) < 0 && errno == EINTR) {} if (!WIFEXITED(st) || WEXITSTATUS(st) != 0) bad++; }
	if (bad) { printf("HARNESS-ERROR workers_failed=%d\n", bad); return 2; }
	return 0;     // python merges the worker files
}

static int cmd_replay(const std::string & file, const Opts & o) {
	Json r;
	if (!Json::parse(read_file(file), r)) { fprintf(stderr, "cannot parse %s\n", file.c_str()); return 2; }
	Engine * eng = engine_by_name(r.gets("engine"));
	if (!eng) return 2;
	if (r.gets("variant") != variant_name()) { fprintf(stderr, "replay file is for variant %s\n", r.gets("variant").c_str()); return 2; }
	Worker wk(eng);
	ChildOutcome c;
	Json v = wk.evaluate(r.at("plan"), &c, true);
	if (Worker::is_violation(v)) {
		bool same_hash = c.result.is_null() || r.gets("event_log_hash").empty() || c.result.gets("log_hash") == r.gets("event_log_hash");
		printf("VIOLATION property=%s replay=%s\n", eng->property(), file.c_str());
		printf("  clause=%s detail=%s\n", v.gets("clause").c_str(), v.at("detail").is_str() ? v.gets("detail").c_str() : v.at("detail").dump().c_str());
		printf("  event_log_hash %s (%s)\n", c.result.gets("log_hash").c_str(), same_hash ? "matches the recorded one" : "differs from the recorded one: the tree changed since recording");
		if (o.tier == "verbose") printf("  result=%s\n", c.result.dump().c_str());
		return 1;
	}
	printf("NOT-REPRODUCED property=%s replay=%s verdict=%s\n", eng->property(), file.c_str(), v.dump().c_str());
	return 0;
}

#if defined(VARIANT_T)
void thr_init_interposers();
#endif
#include <sys/personality.h>

int main(int argc, char ** argv) {
	// one address-space layout for every run and every replay: pointer values never enter a decision,
	// but hash-table collisions in the access shadow may, so take ASLR out of the picture altogether
	if (!getenv("MMDSIM_NOASLR")) {
		setenv("MMDSIM_NOASLR", "1", 1);
		if (personality(ADDR_NO_RANDOMIZE) != -1) execv("/proc/self/exe", argv);
	}
#if defined(VARIANT_T)
	thr_init_interposers();
#endif
	setenv("TZ", "UTC", 1);
	setenv("LC_ALL", "C", 1);
	tzset();
	signal(SIGPIPE, SIG_IGN);
	if (argc < 2) { fprintf(stderr, "usage: mmdsim run|replay|plan|exec ...\n"); return 2; }
	std::string cmd = argv[1];
	Opts o;
	std::string file;
	uint64_t index = 0;
	for (int i = 2; i < argc; i++) {
		std::string a = argv[i];
		auto val = [&]() { return i + 1 < argc ? std::string(argv[++i]) : std::string(); };
		if (a == "--engine") o.engine = val();
		else if (a == "--seed") o.seed = strtoull(val().c_str(), nullptr, 10) & 0x7fffffffffffffffULL;
		else if (a == "--runs") o.runs = strtoull(val().c_str(), nullptr, 10);
		else if (a == "--start") o.start = strtoull(val().c_str(), nullptr, 10);
		else if (a == "--workers") o.workers = atoi(val().c_str());
		else if (a == "--tier") o.tier = val();
		else if (a == "--out") o.out = val();
		else if (a == "--src-hash") o.src_hash = val();
		else if (a == "--max-seconds") o.max_seconds = atoi(val().c_str());
		else if (a == "--recheck-pct") o.recheck_pct = atoi(val().c_str());
		else if (a == "--shrink-budget") o.shrink_budget = atoi(val().c_str());
		else if (a == "--shrink-seconds") o.shrink_seconds = atoi(val().c_str());
		else if (a == "--no-shrink") o.no_shrink = true;
		else if (a == "--index") index = strtoull(val().c_str(), nullptr, 10);
		else if (a == "--child-timeout") g_child_timeout_s = atoi(val().c_str());
		else if (a == "--max-viol") o.max_viol_per_worker = atoi(val().c_str());
		else file = a;
	}
	if (o.workers < 1) o.workers = 1;
	if (cmd == "run") return cmd_run(o);
	if (cmd == "replay") return cmd_replay(file, o);
	if (cmd == "plan") {
		Engine * eng = engine_by_name(o.engine);
		if (!eng) return 2;
		printf("%s\n", eng->plan(run_seed_for(o.seed, eng->name(), index), o.tier).dump().c_str());
		return 0;
	}
	if (cmd == "exec") {     // run one plan file (plan or replay file) and print outcome + verdict
		Json r;
		if (!Json::parse(read_file(file), r)) return 2;
		Json plan = r.has("plan") ? r.at("plan") : r;
		Engine * eng = engine_by_name(r.has("engine") ? r.gets("engine") : o.engine);
		if (!eng) return 2;
		Worker wk(eng);
		ChildOutcome c;
		Json v = wk.evaluate(plan, &c, true);
		printf("status=%s last_op=%d\nverdict=%s\nresult=%s\nstderr=%s\n", c.status.c_str(), c.last_op, v.dump().c_str(), c.result.dump().c_str(), c.stderr_head.substr(0, 3000).c_str());
		return 0;
	}
	if (cmd == "rule") { Engine * eng = engine_by_name(o.engine); if (!eng) return 2; printf("%s\n", eng->rule().c_str()); return 0; }
	if (cmd == "engines") { for (auto e : engines()) printf("%s %s\n", e->name(), e->property()); return 0; }
	fprintf(stderr, "unknown command\n");
	return 2;
}
